#!/bin/bash
# usage: seedcheck.sh <patch.diff> <tier> <prop> [<prop>...]   (env: SUITE=1 also runs the repo's test suite, EXTRA=gosym flags)
# Applies the patch to a scratch worktree of /repo (outside /repo and /verif), runs the listed
# checks against it (VERIF_REPO), prints one line per check, removes the worktree.
set -u
export GOFLAGS=-mod=mod GOPROXY=off GOSUMDB=off GOTOOLCHAIN=local GOWORK=off
patch=$(readlink -f "$1"); tier=$2; shift 2
w=$(mktemp -d /tmp/mut.XXXXXX)
git -C /repo worktree add --detach "$w/r" HEAD -q || exit 9
cleanup() { git -C /repo worktree remove --force "$w/r" 2>/dev/null; rm -rf "$w"; }
trap cleanup EXIT
if ! git -C "$w/r" apply "$patch"; then echo "PATCH-DOES-NOT-APPLY $patch"; exit 8; fi
if [ "${SUITE:-0}" = 1 ]; then
  (cd "$w/r" && go test -vet=off -count=1 ./... 2>&1 | grep -v "^ok" | head -20); echo "suite-exit=${PIPESTATUS[0]}"
fi
for p in "$@"; do
  out=$(VERIF_REPO="$w/r" VERIF_EVIDENCE_DIR="$w/ev" /verif/bin/gosym check --property "$p" --tier "$tier" ${EXTRA:-} 2>&1); rc=$?
  echo "== $p exit=$rc"
  echo "$out" | grep -E "VIOLATION|INCONCLUSIVE|obligation=|NOTE" | head -${LINES_MAX:-12}
done
