#!/bin/bash
# usage: seeded_all.sh [tier] [filter-regex]
# Runs, for every /verif/seeded/<Cxx-mk>/patch.diff, the check of property Cxx against a scratch
# worktree with the patch applied; prints one line per seeded change and writes seeded/RESULTS.md.
tier=${1:-quick}; filt=${2:-.}
out=/verif/seeded/RESULTS.$tier.md
echo "| seeded change | check exit | first violated obligation |" > $out
echo "|---|---|---|" >> $out
for d in /verif/seeded/C*; do  # (refactor-* entries are run per file with seedcheck.sh, see their meta.json)
  n=$(basename $d); echo "$n" | grep -qE "$filt" || continue
  p=${n%%-*}
  res=$(LINES_MAX=2 /verif/tools/seedcheck.sh $d/patch.diff $tier $p 2>&1)
  rc=$(echo "$res" | grep -oE "exit=[0-9]+" | head -1)
  ob=$(echo "$res" | grep -oE "obligation=[^ ]+( at [^:]+:[0-9]+)?" | head -1)
  echo "$n $rc $ob"
  echo "| $n | $rc | $ob |" >> $out
done
