#!/bin/bash
# usage: seedverify.sh <dir with patch.diff + demo *_test.go>
# Confirms in a scratch worktree: (1) suite passes with the change, (2) demo fails with it, (3) demo passes without it.
set -u
export GOFLAGS=-mod=mod GOPROXY=off GOSUMDB=off GOTOOLCHAIN=local GOWORK=off
d=$(readlink -f "$1")
w=$(mktemp -d /tmp/mutv.XXXXXX)
git -C /repo worktree add --detach "$w/r" HEAD -q || exit 9
trap 'git -C /repo worktree remove --force "$w/r" 2>/dev/null; rm -rf "$w"' EXIT
demo=$(ls "$d"/*_test.go | head -1)
pkg=$(grep -m1 '^package ' "$demo" | awk '{print $2}' | sed 's/_test$//')
dir=$pkg; [ "$pkg" = gogu ] && dir=.
tests=$(grep -oE '^func (Test|Example)[A-Za-z0-9_]*' "$demo" | awk '{print $2}' | paste -sd'|')
race=""; grep -qi -- "-race" "$d/notes.md" 2>/dev/null && race="-race"
rundemo() { (cd "$w/r" && cp "$demo" "$dir/zz_demo_test.go" && timeout 600 go test -vet=off -count=1 $race -run "^($tests)\$" ./$dir >"$w/demo.log" 2>&1; rc=$?; rm -f "$dir/zz_demo_test.go"; return $rc); }
rundemo; base=$?
git -C "$w/r" apply "$d/patch.diff" || { echo "RESULT $d: PATCH-DOES-NOT-APPLY"; exit 8; }
(cd "$w/r" && go build ./... && go test -vet=off -count=1 ./... 2>&1 | grep -v "^ok" | grep -vE "Example_after|TestFunc_Debounce" | head -5 >"$w/suite.log"; true)
suite=ok; grep -qE "^(FAIL|---)" "$w/suite.log" && suite="FAIL($(grep -E '^--- FAIL' "$w/suite.log" | head -3 | tr '\n' ' '))"
rundemo; mut=$?
echo "RESULT $d: demo-on-clean=$base suite-with-change=$suite demo-with-change=$mut (race=$race tests=$tests)"
