package sym

import (
	"fmt"
	"go/token"
	"go/types"
	"sort"
	"strings"

	"golang.org/x/tools/go/ssa"
)

// ---- lock-discipline monitor (C01-A) ----

type accessRec struct {
	class string
	write bool
	locks string // sorted "class:mode" list
	pos   string
	op    string
}

// AccessClass aggregates the accesses to one cell class.
type AccessClass struct {
	Class string
	Recs  map[string]*AccessAgg // key: write|locks|op
}

type AccessAgg struct {
	Write bool
	Locks []string // "lockclass:R" / "lockclass:W"
	Op    string
	Pos   string
	Count int
}

func typeName(t types.Type) string {
	s := types.TypeString(t, func(p *types.Package) string {
		path := p.Path()
		if i := strings.LastIndex(path, "/"); i >= 0 {
			return path[i+1:]
		}
		return path
	})
	return s
}

// cellClass names the memory cell addressed by p: object type plus field path (indices collapsed).
func (r *Run) cellClass(p Ptr) string {
	if p.Obj == nil {
		return "nil"
	}
	t := p.Obj.Typ
	if t == nil {
		return fmt.Sprintf("obj%d", p.Obj.ID)
	}
	var sb strings.Builder
	if p.Obj.Label != "" {
		sb.WriteString(p.Obj.Label)
	} else {
		sb.WriteString(typeName(t))
	}
	for _, i := range p.Path {
		switch u := t.Underlying().(type) {
		case *types.Struct:
			sb.WriteString("." + u.Field(i).Name())
			t = u.Field(i).Type()
		case *types.Array:
			sb.WriteString("[*]")
			t = u.Elem()
		default:
			return sb.String()
		}
	}
	return sb.String()
}

func isSyncType(t types.Type) bool {
	n, ok := t.(*types.Named)
	if !ok {
		return false
	}
	return n.Obj().Pkg() != nil && n.Obj().Pkg().Path() == "sync"
}

func (r *Run) heldString(th *Thread) string {
	var ls []string
	for k, mode := range th.held {
		st := r.locks[k]
		m := "R"
		if mode == 2 {
			m = "W"
		}
		ls = append(ls, st.class+":"+m)
	}
	sort.Strings(ls)
	return strings.Join(ls, ",")
}

func (r *Run) noteAccess(th *Thread, p Ptr, write bool, pos token.Pos) {
	if !r.monitor || p.Obj == nil || !p.Obj.Shared {
		return
	}
	r.access = append(r.access, accessRec{class: r.cellClass(p), write: write, locks: r.heldString(th), pos: r.E.Pos(pos), op: r.curOp})
}

func (r *Run) noteMapAccess(th *Thread, m *MapObj, write bool, pos token.Pos) {
	if !r.monitor || m == nil || !m.Shared {
		return
	}
	r.access = append(r.access, accessRec{class: "map:" + typeName(m.KT) + "->" + typeName(m.VT) + "#" + m.label, write: write, locks: r.heldString(th), pos: r.E.Pos(pos), op: r.curOp})
}

// share marks everything reachable from v as shared between threads.
func (r *Run) share(v Value) {
	r.monitor = true
	r.publishValue(v)
}

func (r *Run) publishValue(v Value) {
	switch x := v.(type) {
	case Ptr:
		if x.Obj != nil && !x.Obj.Shared {
			x.Obj.Shared = true
			r.publishValue(x.Obj.V)
		}
	case *StructV:
		for _, f := range x.F {
			r.publishValue(f)
		}
	case *ArrayV:
		for _, f := range x.E {
			r.publishValue(f)
		}
	case SliceV:
		if x.Arr != nil && !x.Arr.Shared {
			x.Arr.Shared = true
			r.publishValue(x.Arr.V)
		}
	case IfaceV:
		if x.T != nil {
			r.publishValue(x.V)
		}
	case *MapObj:
		if x != nil && !x.Shared {
			x.Shared = true
			for _, e := range x.Entries {
				r.publishValue(e.K)
				r.publishValue(e.V)
			}
		}
	case *FuncV:
		if x != nil {
			for _, e := range x.Env {
				r.publishValue(e)
			}
		}
	}
}

// publish: storing a reference into a shared object shares the referent.
func (r *Run) publish(p Ptr, v Value) {
	if r.monitor && p.Obj.Shared {
		r.publishValue(v)
	}
}

func (r *Run) mergeAccess() {
	h := r.H
	for _, a := range r.access {
		ac := h.Access[a.class]
		if ac == nil {
			ac = &AccessClass{Class: a.class, Recs: map[string]*AccessAgg{}}
			h.Access[a.class] = ac
		}
		k := fmt.Sprintf("%v|%s|%s", a.write, a.locks, a.op)
		ag := ac.Recs[k]
		if ag == nil {
			ag = &AccessAgg{Write: a.write, Op: a.op, Pos: a.pos}
			if a.locks != "" {
				ag.Locks = strings.Split(a.locks, ",")
			}
			ac.Recs[k] = ag
		}
		ag.Count++
	}
}

// ---- Par ----

func (th *Thread) par(caller *frame, pos token.Pos, fns SliceV) {
	r := th.R
	var kids []*Thread
	for i := 0; i < fns.Len; i++ {
		f := r.sliceElem(fns, i)
		k := r.spawn(func(t *Thread) { t.call(nil, pos, f, nil) }, true)
		kids = append(kids, k)
	}
	r.parDepth++
	th.block("Par", func() bool {
		for _, k := range kids {
			if !k.done {
				return false
			}
		}
		// helper threads spawned inside Par (timer callbacks) must be finished or blocked too
		return true
	})
	r.parDepth--
}

// ---- package initialisation ----

func fnPackage(fn *ssa.Function) *types.Package {
	for f := fn; f != nil; f = f.Parent() {
		if f.Pkg != nil {
			return f.Pkg.Pkg
		}
		if o := f.Origin(); o != nil && o.Pkg != nil {
			return o.Pkg.Pkg
		}
	}
	return nil
}

func initAllowed(p *types.Package) bool {
	return isRepoPkg(p) || p.Path() == "golang.org/x/sync/singleflight"
}

func (r *Run) initPackages(th *Thread, pkg *ssa.Package) {
	init := pkg.Func("init")
	if init != nil {
		th.callSSA(nil, token.NoPos, init, nil, nil)
	}
}
