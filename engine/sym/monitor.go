package sym

import (
	"fmt"
	"go/token"
	"go/types"
	"sort"
	"strings"

	"golang.org/x/tools/go/ssa"
)

// ---- lock-discipline monitor (C01-A) ----

type accessRec struct {
	class string
	write bool
	locks string // sorted "class:mode" list
	pos   string
	op    string
	tid   int
	cell  string         // concrete cell: object id + path
	held  map[string]int // lock key -> mode at the time of the access
}

// AccessClass aggregates the accesses to one cell class.
type AccessClass struct {
	Class string
	Recs  map[string]*AccessAgg // key: write|locks|op
}

type AccessAgg struct {
	Write bool
	Locks []string // "lockclass:R" / "lockclass:W"
	Op    string
	Pos   string
	Count int
}

func typeName(t types.Type) string {
	s := types.TypeString(t, func(p *types.Package) string {
		path := p.Path()
		if i := strings.LastIndex(path, "/"); i >= 0 {
			return path[i+1:]
		}
		return path
	})
	return s
}

// cellClass names the memory cell addressed by p: object type plus field path (indices collapsed).
func (r *Run) cellClass(p Ptr) string {
	if p.Obj == nil {
		return "nil"
	}
	t := p.Obj.Typ
	if t == nil {
		return fmt.Sprintf("obj%d", p.Obj.ID)
	}
	var sb strings.Builder
	if p.Obj.Label != "" {
		sb.WriteString(p.Obj.Label)
	} else {
		sb.WriteString(typeName(t))
	}
	for _, i := range p.Path {
		switch u := t.Underlying().(type) {
		case *types.Struct:
			sb.WriteString("." + u.Field(i).Name())
			t = u.Field(i).Type()
		case *types.Array:
			if sb.Len() > 0 && strings.HasPrefix(sb.String(), "[") && p.Obj.Label == "" {
				// backing store of a slice: the capacity is incidental, name it by element type
				sb.Reset()
				sb.WriteString("[]" + typeName(u.Elem()))
			}
			sb.WriteString("[*]")
			t = u.Elem()
		default:
			return sb.String()
		}
	}
	return sb.String()
}

func isSyncType(t types.Type) bool {
	n, ok := t.(*types.Named)
	if !ok {
		return false
	}
	return n.Obj().Pkg() != nil && n.Obj().Pkg().Path() == "sync"
}

func (r *Run) heldString(th *Thread) string {
	var ls []string
	for k, mode := range th.held {
		st := r.locks[k]
		m := "R"
		if mode == 2 {
			m = "W"
		}
		ls = append(ls, st.class+":"+m)
	}
	sort.Strings(ls)
	return strings.Join(ls, ",")
}

func copyHeld(h map[string]int) map[string]int {
	if len(h) == 0 {
		return nil
	}
	c := make(map[string]int, len(h))
	for k, v := range h {
		c[k] = v
	}
	return c
}

// freeAccessYield: a shared access made while holding no lock is a visible operation; one
// pre-emption point is placed before the first such access after each synchronisation operation
// of the thread (a stated granularity: the race itself is reported by the lock-discipline rule).
func (r *Run) freeAccessYield(th *Thread, obj interface{}) {
	if r.parDepth == 0 || !th.inPar || len(th.held) > 0 {
		return
	}
	if th.lastFree != nil {
		return
	}
	th.lastFree = obj
	th.yield()
}

func (r *Run) noteAccess(th *Thread, p Ptr, write bool, pos token.Pos) {
	if !r.monitor || p.Obj == nil || !p.Obj.Shared || r.parDepth == 0 || !th.inPar {
		return
	}
	if isSyncType(p.Obj.Typ) {
		return
	}
	r.freeAccessYield(th, p.Obj)
	r.access = append(r.access, accessRec{class: r.cellClass(p), write: write, locks: r.heldString(th), pos: r.E.Pos(pos), op: th.curOp,
		tid: th.ID, cell: p.Key(), held: copyHeld(th.held)})
}

func (r *Run) noteMapAccess(th *Thread, m *MapObj, write bool, pos token.Pos) {
	if !r.monitor || m == nil || !m.Shared || r.parDepth == 0 || !th.inPar {
		return
	}
	r.freeAccessYield(th, m)
	r.access = append(r.access, accessRec{class: "map:" + typeName(m.KT) + "->" + typeName(m.VT), write: write, locks: r.heldString(th), pos: r.E.Pos(pos), op: th.curOp,
		tid: th.ID, cell: fmt.Sprintf("map%p", m), held: copyHeld(th.held)})
}

// protectedPair: two accesses by different threads are ordered by mutual exclusion iff they hold
// a common mutex and at least one of them holds it exclusively.
func protectedPair(a, b *accessRec) bool {
	for k, ma := range a.held {
		if mb, ok := b.held[k]; ok && (ma == 2 || mb == 2) {
			return true
		}
	}
	return false
}

// checkRaces applies the lock-discipline rule to the accesses logged by the Par threads: same
// concrete cell, different threads, at least one write, no common mutex held exclusively by one.
// Returns after recording (at most a few) violations; a race listed as a known finding ends the path.
func (r *Run) checkRaces(from int) {
	recs := r.access[from:]
	byCell := map[string][]*accessRec{}
	var order []string
	for i := range recs {
		a := &recs[i]
		if _, ok := byCell[a.cell]; !ok {
			order = append(order, a.cell)
		}
		byCell[a.cell] = append(byCell[a.cell], a)
	}
	seen := map[string]bool{}
	knownHit := false
	for _, c := range order {
		as := byCell[c]
		for i := 0; i < len(as); i++ {
			for j := i + 1; j < len(as); j++ {
				a, b := as[i], as[j]
				if a.tid == b.tid || (!a.write && !b.write) || protectedPair(a, b) {
					continue
				}
				oa, ob := a.op, b.op
				if ob < oa {
					oa, ob = ob, oa
					a, b = b, a
				}
				id := "race/" + a.class + "/" + oa + "~" + ob
				if seen[id] {
					continue
				}
				seen[id] = true
				msg := fmt.Sprintf("unsynchronised conflicting accesses to %s: %s %s at %s holding [%s] vs %s %s at %s holding [%s]",
					a.class, a.op, rw(a.write), a.pos, a.locks, b.op, rw(b.write), b.pos, b.locks)
				if r.E.KnownIDs[id] {
					knownHit = true
					r.recordViolation(id, msg, token.NoPos, true, r.model)
				} else {
					r.recordViolation(id, msg, token.NoPos, false, r.model)
				}
			}
		}
	}
	if knownHit {
		r.end("known", "path ended at a recorded known finding (race)")
	}
}

func rw(w bool) string {
	if w {
		return "write"
	}
	return "read"
}

// share marks everything reachable from v as shared between threads.
func (r *Run) share(v Value, races bool) {
	if races {
		r.monitor = true
	}
	r.shareUsed = true
	r.publishValue(v)
}

func (r *Run) publishValue(v Value) {
	switch x := v.(type) {
	case Ptr:
		if x.Obj != nil && !x.Obj.Shared {
			x.Obj.Shared = true
			r.publishValue(x.Obj.V)
		}
	case *StructV:
		for _, f := range x.F {
			r.publishValue(f)
		}
	case *ArrayV:
		for _, f := range x.E {
			r.publishValue(f)
		}
	case SliceV:
		if x.Arr != nil && !x.Arr.Shared {
			x.Arr.Shared = true
			r.publishValue(x.Arr.V)
		}
	case IfaceV:
		if x.T != nil {
			r.publishValue(x.V)
		}
	case *MapObj:
		if x != nil && !x.Shared {
			x.Shared = true
			for _, e := range x.Entries {
				r.publishValue(e.K)
				r.publishValue(e.V)
			}
		}
	case *ChanObj:
		if x != nil && !x.Shared {
			x.Shared = true
			for _, e := range x.Buf {
				r.publishValue(e)
			}
		}
	case *FuncV:
		if x != nil {
			for _, e := range x.Env {
				r.publishValue(e)
			}
		}
	}
}

// publish: storing a reference into a shared object shares the referent.
func (r *Run) publish(p Ptr, v Value) {
	if r.shareUsed && p.Obj.Shared {
		r.publishValue(v)
	}
}

func (r *Run) mergeAccess() {
	h := r.H
	for _, a := range r.access {
		ac := h.Access[a.class]
		if ac == nil {
			ac = &AccessClass{Class: a.class, Recs: map[string]*AccessAgg{}}
			h.Access[a.class] = ac
		}
		k := fmt.Sprintf("%v|%s|%s", a.write, a.locks, a.op)
		ag := ac.Recs[k]
		if ag == nil {
			ag = &AccessAgg{Write: a.write, Op: a.op, Pos: a.pos}
			if a.locks != "" {
				ag.Locks = strings.Split(a.locks, ",")
			}
			ac.Recs[k] = ag
		}
		ag.Count++
	}
}

// ---- Par ----

func (th *Thread) par(caller *frame, pos token.Pos, fns SliceV) {
	r := th.R
	var kids []*Thread
	for i := 0; i < fns.Len; i++ {
		f := r.sliceElem(fns, i)
		k := r.spawn(func(t *Thread) { t.call(nil, pos, f, nil) }, true)
		kids = append(kids, k)
	}
	r.parDepth++
	from := len(r.access)
	th.block("Par", func() bool {
		for _, k := range kids {
			if !k.done {
				return false
			}
		}
		// helper threads spawned inside Par (timer callbacks) must be finished or blocked too
		return true
	})
	r.parDepth--
	if r.monitor {
		r.checkRaces(from)
	}
}

// ---- package initialisation ----

func fnPackage(fn *ssa.Function) *types.Package {
	for f := fn; f != nil; f = f.Parent() {
		if f.Pkg != nil {
			return f.Pkg.Pkg
		}
		if o := f.Origin(); o != nil && o.Pkg != nil {
			return o.Pkg.Pkg
		}
	}
	return nil
}

func initAllowed(p *types.Package) bool {
	return isRepoPkg(p) || p.Path() == "golang.org/x/sync/singleflight"
}

func (r *Run) initPackages(th *Thread, pkg *ssa.Package) {
	init := pkg.Func("init")
	if init != nil {
		r.inInit = true
		th.callSSA(nil, token.NoPos, init, nil, nil)
		r.inInit = false
	}
}
