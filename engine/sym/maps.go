package sym

import (
	"go/token"
	"go/types"

	"golang.org/x/tools/go/ssa"
)

// findEntry locates key in m, forking on symbolic key equality.
func (th *Thread) findEntry(m *MapObj, key Value) *mapEntry {
	r := th.R
	for _, e := range m.Entries {
		if e.Deleted {
			continue
		}
		if r.Branch(r.equal(e.K, key)) {
			return e
		}
	}
	return nil
}

func (th *Thread) lookup(fr *frame, in *ssa.Lookup) Value {
	r := th.R
	x := fr.get(in.X)
	if s, ok := x.(StringV); ok {
		it := th.toInt64Term(fr.get(in.Index).(*Term), in.Index.Type())
		i := th.idx(it, len(s.B), in.Pos(), "string index")
		return s.B[i]
	}
	m, _ := x.(*MapObj)
	vt := in.X.Type().Underlying().(*types.Map).Elem()
	var e *mapEntry
	if m != nil {
		r.noteMapAccess(th, m, false, in.Pos())
		e = th.findEntry(m, fr.get(in.Index))
	}
	var v Value
	if e != nil {
		v = e.V
	} else {
		v = r.zero(vt)
	}
	if in.CommaOk {
		return TupleV{v, r.TB.Bool(e != nil)}
	}
	return v
}

func (th *Thread) mapUpdate(m *MapObj, k, v Value) {
	r := th.R
	r.noteMapAccess(th, m, true, token.NoPos)
	if m.Shared {
		r.publishValue(v)
	}
	if e := th.findEntry(m, k); e != nil {
		e.V = v
		return
	}
	r.serial++
	m.Entries = append(m.Entries, &mapEntry{K: k, V: v, Serial: r.serial})
}

func (th *Thread) mapDelete(m *MapObj, k Value) {
	if m == nil {
		return
	}
	th.R.noteMapAccess(th, m, true, token.NoPos)
	if e := th.findEntry(m, k); e != nil {
		e.Deleted = true
	}
}

func (th *Thread) rangeIter(x Value, t types.Type) Value {
	switch a := x.(type) {
	case StringV:
		if a.Opaque != nil {
			th.R.unsupported("range over opaque string")
		}
		return &Iter{Str: &a}
	case *MapObj:
		it := &Iter{Map: a, Seen: map[*mapEntry]bool{}, Start: th.R.serial}
		if a != nil {
			th.R.noteMapAccess(th, a, false, token.NoPos)
		}
		return it
	}
	th.R.unsupported("range over %T", x)
	return nil
}

func (th *Thread) iterNext(it *Iter, in *ssa.Next) Value {
	r := th.R
	tb := r.TB
	if in.IsString {
		if it.Pos >= len(it.Str.B) {
			return TupleV{tb.False, tb.Int(64, 0), tb.Int(32, 0)}
		}
		rn, w := r.decodeRune(*it.Str, it.Pos)
		res := TupleV{tb.True, tb.Int(64, int64(it.Pos)), rn}
		it.Pos += w
		return res
	}
	tt := in.Type().(*types.Tuple)
	zk, zv := r.zero(tt.At(1).Type()), r.zero(tt.At(2).Type())
	if it.Map == nil {
		return TupleV{tb.False, zk, zv}
	}
	r.noteMapAccess(th, it.Map, false, in.Pos())
	var cands []*mapEntry
	for _, e := range it.Map.Entries {
		if !e.Deleted && !it.Seen[e] && e.Serial <= it.Start {
			cands = append(cands, e)
		}
	}
	if len(cands) == 0 {
		return TupleV{tb.False, zk, zv}
	}
	k := 0
	switch r.mapOrderMode {
	case 0: // every order
		k = r.Choice(len(cands))
	case 1: // rotations: first pick free, then cyclic insertion order
		if len(it.Seen) == 0 {
			k = r.Choice(len(cands))
			it.rot = cands[k]
		} else {
			// next live unseen entry after the last returned one, cyclically
			k = 0
			for i, e := range cands {
				if e.Serial > it.last.Serial {
					k = i
					break
				}
			}
		}
	default: // insertion order
		k = 0
	}
	e := cands[k]
	it.Seen[e] = true
	it.last = e
	r.mapOrders = append(r.mapOrders, k)
	return TupleV{tb.True, e.K, e.V}
}

// ---- builtins ----

func (th *Thread) callBuiltin(caller *frame, pos token.Pos, b *ssa.Builtin, args []Value) Value {
	r := th.R
	tb := r.TB
	switch b.Name() {
	case "len":
		switch a := args[0].(type) {
		case SliceV:
			return tb.Int(64, int64(a.Len))
		case StringV:
			if a.Opaque != nil {
				r.unsupported("len of opaque string")
			}
			return tb.Int(64, int64(len(a.B)))
		case *MapObj:
			if a == nil {
				return tb.Int(64, 0)
			}
			r.noteMapAccess(th, a, false, pos)
			return tb.Int(64, int64(a.Live()))
		case *ChanObj:
			if a == nil {
				return tb.Int(64, 0)
			}
			return tb.Int(64, int64(len(a.Buf)))
		case *ArrayV:
			return tb.Int(64, int64(len(a.E)))
		case Ptr:
			return tb.Int(64, int64(len(walk(a.Obj.V, a.Path).(*ArrayV).E)))
		}
	case "cap":
		switch a := args[0].(type) {
		case SliceV:
			return tb.Int(64, int64(a.Cap))
		case *ChanObj:
			if a == nil {
				return tb.Int(64, 0)
			}
			return tb.Int(64, int64(a.Cap))
		case *ArrayV:
			return tb.Int(64, int64(len(a.E)))
		}
	case "append":
		s := args[0].(SliceV)
		et := b.Type().(*types.Signature).Params().At(0).Type().Underlying().(*types.Slice).Elem()
		var elems []Value
		switch t := args[1].(type) {
		case SliceV:
			if t.Len > 0 {
				elems = th.sliceValues(t, pos)
			}
		case StringV:
			for _, x := range t.B {
				elems = append(elems, x)
			}
		}
		return th.doAppend(s, elems, et, pos)
	case "copy":
		dst := args[0].(SliceV)
		var src []Value
		switch t := args[1].(type) {
		case SliceV:
			if t.Len > 0 {
				src = th.sliceValues(t, pos)
			}
		case StringV:
			for _, x := range t.B {
				src = append(src, x)
			}
		}
		n := len(src)
		if dst.Len < n {
			n = dst.Len
		}
		for i := 0; i < n; i++ {
			th.store(dst.elemPtr(i), src[i], pos)
		}
		return tb.Int(64, int64(n))
	case "delete":
		m, _ := args[0].(*MapObj)
		th.mapDelete(m, args[1])
		return nil
	case "close":
		c, _ := args[0].(*ChanObj)
		th.chanClose(c, pos)
		return nil
	case "print", "println":
		return nil
	case "panic":
		panic(&goPanic{V: args[0], Msg: "explicit panic: " + describe(args[0].(IfaceV).V), Pos: pos})
	case "recover":
		return th.doRecover(caller)
	case "ssa:wrapnilchk":
		p := args[0].(Ptr)
		if p.IsNil() {
			th.targetPanic("value method called using nil pointer", pos)
		}
		return p
	case "min", "max":
		acc := args[0].(*Term)
		bt := basicOf(b.Type().(*types.Signature).Params().At(0).Type())
		if bt == nil || acc.Sort == SF64 {
			r.unsupported("min/max on non-integers")
		}
		_, signed := intInfo(bt)
		for _, a := range args[1:] {
			x := a.(*Term)
			var lt *Term
			if signed {
				lt = tb.Bin(OSlt, x, acc)
			} else {
				lt = tb.Bin(OUlt, x, acc)
			}
			if b.Name() == "max" {
				lt = tb.Not(tb.Or(lt, tb.Eq(x, acc)))
			}
			acc = tb.Ite(lt, x, acc)
		}
		return acc
	case "clear":
		switch a := args[0].(type) {
		case *MapObj:
			if a != nil {
				for _, e := range a.Entries {
					e.Deleted = true
				}
			}
			return nil
		}
	}
	r.unsupported("builtin %s on %T", b.Name(), args[0])
	return nil
}

func (th *Thread) doRecover(caller *frame) Value {
	if caller != nil && !caller.panicking && caller.caller != nil && caller.caller.panicking {
		caller.caller.panicking = false
		p := caller.caller.panicV
		caller.caller.panicV = nil
		return p.V
	}
	return IfaceV{}
}

func chanElem(t types.Type) types.Type {
	return t.Underlying().(*types.Chan).Elem()
}
