package sym

import (
	"fmt"
	"go/token"
	"go/types"
	"os"
	"path/filepath"
	"sort"
	"strings"

	"golang.org/x/tools/go/packages"
	"golang.org/x/tools/go/ssa"
	"golang.org/x/tools/go/ssa/ssautil"
)

const RepoMod = "github.com/esimov/gogu"
const VrtPath = RepoMod + "/zzvrt"

// Engine holds the loaded program (shared, read-only during exploration).
type Engine struct {
	RepoDir    string
	VerifDir   string
	Prog       *ssa.Program
	Fset       *token.FileSet
	Pkgs       map[string]*ssa.Package // by import path
	Sizes      types.Sizes
	Overlay    map[string][]byte
	Dropped    []string // harness files dropped because they no longer type-check
	Harnesses  map[string]*ssa.Function
	HarnessPkg map[string]string
	Tier       int // 0 quick, 1 thorough
	PreemptBound int // -1 = unbounded
	KnownIDs   map[string]bool // obligations recorded as known findings for the property being checked
}

// harnessDirs maps /verif/harness/<dir> to the repo-relative package directory.
func harnessDirs(verif string) (map[string]string, error) {
	ents, err := os.ReadDir(filepath.Join(verif, "harness"))
	if err != nil {
		return nil, err
	}
	out := map[string]string{}
	for _, e := range ents {
		if !e.IsDir() {
			continue
		}
		switch e.Name() {
		case "root":
			out[e.Name()] = "."
		default:
			out[e.Name()] = e.Name()
		}
	}
	return out, nil
}

// BuildOverlay collects the harness files as an overlay onto repoDir.
func BuildOverlay(repoDir, verifDir string, only map[string]bool) (map[string][]byte, error) {
	dirs, err := harnessDirs(verifDir)
	if err != nil {
		return nil, err
	}
	ov := map[string][]byte{}
	for hd, rel := range dirs {
		if only != nil && !only[hd] && hd != "zzvrt" {
			continue
		}
		files, _ := filepath.Glob(filepath.Join(verifDir, "harness", hd, "*.go"))
		for _, f := range files {
			base := filepath.Base(f)
			if strings.HasSuffix(base, "_native.go") {
				continue // native-only bodies (replay build)
			}
			data, err := os.ReadFile(f)
			if err != nil {
				return nil, err
			}
			ov[filepath.Join(repoDir, rel, base)] = data
		}
	}
	return ov, nil
}

// Load type-checks the repo with the harness overlay and builds SSA.
func Load(repoDir, verifDir string, pkgDirs []string) (*Engine, error) {
	e := &Engine{RepoDir: repoDir, VerifDir: verifDir}
	only := map[string]bool{}
	for _, d := range pkgDirs {
		only[d] = true
	}
	ov, err := BuildOverlay(repoDir, verifDir, only)
	if err != nil {
		return nil, err
	}
	e.Overlay = ov
	var patterns []string
	for _, d := range pkgDirs {
		if d == "root" {
			patterns = append(patterns, RepoMod)
		} else {
			patterns = append(patterns, RepoMod+"/"+d)
		}
	}
	sort.Strings(patterns)
	for attempt := 0; attempt < 8; attempt++ {
		cfg := &packages.Config{
			Mode:    packages.LoadAllSyntax,
			Dir:     repoDir,
			Overlay: e.Overlay,
			Env: append(os.Environ(), "GOFLAGS=-mod=mod", "GOPROXY=off", "GOSUMDB=off",
				"GOTOOLCHAIN=local", "GOWORK=off"),
			Tests: false,
		}
		pkgs, err := packages.Load(cfg, patterns...)
		if err != nil {
			return nil, fmt.Errorf("packages.Load: %w", err)
		}
		// Collect errors; errors located in harness files make us drop that file and retry.
		var hard []string
		dropped := false
		packages.Visit(pkgs, nil, func(p *packages.Package) {
			for _, pe := range p.Errors {
				file := pe.Pos
				if i := strings.Index(file, ":"); i >= 0 {
					file = file[:i]
				}
				if _, isOv := e.Overlay[file]; isOv && strings.HasPrefix(filepath.Base(file), "zv_") && strings.Contains(filepath.Base(file), "_s1") {
					delete(e.Overlay, file)
					e.Dropped = append(e.Dropped, filepath.Base(file)+": "+pe.Msg)
					dropped = true
				} else {
					hard = append(hard, pe.Error())
				}
			}
		})
		if dropped {
			continue
		}
		if len(hard) > 0 {
			return nil, fmt.Errorf("type errors:\n  %s", strings.Join(hard, "\n  "))
		}
		prog, _ := ssautil.AllPackages(pkgs, ssa.InstantiateGenerics|ssa.SanityCheckFunctions&0)
		prog.Build()
		e.Prog = prog
		e.Fset = prog.Fset
		e.Pkgs = map[string]*ssa.Package{}
		for _, p := range prog.AllPackages() {
			e.Pkgs[p.Pkg.Path()] = p
		}
		e.Sizes = types.SizesFor("gc", "amd64")
		e.Harnesses = map[string]*ssa.Function{}
		e.HarnessPkg = map[string]string{}
		for _, p := range pkgs {
			sp := e.Pkgs[p.PkgPath]
			if sp == nil {
				continue
			}
			for name, m := range sp.Members {
				if fn, ok := m.(*ssa.Function); ok && strings.HasPrefix(name, "Zv") {
					e.Harnesses[name] = fn
					e.HarnessPkg[name] = p.PkgPath
				}
			}
		}
		return e, nil
	}
	return nil, fmt.Errorf("could not load after dropping harness files")
}

func (e *Engine) Pos(p token.Pos) string {
	if !p.IsValid() {
		return "?"
	}
	pos := e.Fset.Position(p)
	f := pos.Filename
	if rel, err := filepath.Rel(e.RepoDir, f); err == nil && !strings.HasPrefix(rel, "..") {
		f = rel
	}
	return fmt.Sprintf("%s:%d", f, pos.Line)
}

func isRepoPkg(p *types.Package) bool {
	return p != nil && (p.Path() == RepoMod || strings.HasPrefix(p.Path(), RepoMod+"/"))
}
