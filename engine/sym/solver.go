package sym

import (
	"bufio"
	"fmt"
	"io"
	"math"
	"os"
	"os/exec"
	"strconv"
	"strings"
	"sync/atomic"
	"time"
)

var slowSeq int64

type Result int

const (
	Unsat Result = iota
	Sat
	Unknown
)

func (r Result) String() string { return [...]string{"unsat", "sat", "unknown"}[r] }

// SolverStats are aggregated over all workers.
type SolverStats struct {
	Sat, Unsat, Unknown, Errors int64
	Nanos                       int64
	Fallbacks                   int64
}

// Solver is one long-lived z3 process driven over a pipe.
type Solver struct {
	Bin     string
	Args    []string
	Timeout time.Duration
	cmd     *exec.Cmd
	in      io.WriteCloser
	out     *bufio.Reader
	seq     int
	Stats   *SolverStats
	Log     io.Writer // optional: every query is appended as a standalone script
	Cross   *crossSampler // optional: sample of decided queries for the cross-solver check
	LastErr string
}

func NewSolver(stats *SolverStats) *Solver {
	return &Solver{Bin: envSolver(), Args: []string{"-in", "-smt2"}, Timeout: 8 * time.Second, Stats: stats}
}

func (s *Solver) start() error {
	cmd := exec.Command(s.Bin, s.Args...)
	in, err := cmd.StdinPipe()
	if err != nil {
		return err
	}
	out, err := cmd.StdoutPipe()
	if err != nil {
		return err
	}
	cmd.Stderr = os.Stderr
	if err := cmd.Start(); err != nil {
		return err
	}
	s.cmd, s.in, s.out = cmd, in, bufio.NewReaderSize(out, 1<<16)
	if strings.Contains(s.Bin, "z3") {
		fmt.Fprintf(s.in, "(set-option :timeout %d)\n", s.Timeout.Milliseconds())
	}
	return nil
}

// prelude starts a fresh, non-incremental context: z3's incremental (push/pop) core is an order of
// magnitude slower on these bit-vector queries than its default tactic, so every query is
// self-contained after a (reset).
func (s *Solver) prelude() string {
	if strings.Contains(s.Bin, "z3") {
		return fmt.Sprintf("(reset)\n(set-option :timeout %d)\n", s.Timeout.Milliseconds())
	}
	return "(reset)\n"
}

func (s *Solver) Close() {
	if s.cmd != nil {
		s.in.Close()
		s.cmd.Process.Kill()
		s.cmd.Wait()
		s.cmd = nil
	}
}

// roundTrip sends text followed by an echo sentinel and returns the lines printed before it.
func (s *Solver) roundTrip(text string) ([]string, error) {
	if s.cmd == nil {
		if err := s.start(); err != nil {
			return nil, err
		}
	}
	s.seq++
	sentinel := fmt.Sprintf("<<done-%d>>", s.seq)
	if _, err := io.WriteString(s.in, text+"(echo \""+sentinel+"\")\n"); err != nil {
		s.Close()
		return nil, err
	}
	type resp struct {
		lines []string
		err   error
	}
	ch := make(chan resp, 1)
	go func() {
		var lines []string
		for {
			l, err := s.out.ReadString('\n')
			if err != nil {
				ch <- resp{lines, err}
				return
			}
			l = strings.TrimSpace(l)
			if strings.Contains(l, sentinel) {
				ch <- resp{lines, nil}
				return
			}
			if l != "" {
				lines = append(lines, l)
			}
		}
	}()
	select {
	case r := <-ch:
		if r.err != nil {
			s.Close()
		}
		return r.lines, r.err
	case <-time.After(s.Timeout*2 + 5*time.Second):
		s.Close()
		return nil, fmt.Errorf("solver watchdog timeout")
	}
}

// Check decides satisfiability of the conjunction of asserts. If vals is non-nil and the result is
// sat, the model values of the given terms (symbols or UF applications or any defined term) are
// returned in the same order.
func (s *Solver) Check(tb *Table, asserts []*Term, vals []*Term) (Result, []uint64) {
	t0 := time.Now()
	var bodyForLog string
	defer func() {
		d := time.Since(t0)
		atomic.AddInt64(&s.Stats.Nanos, int64(d))
		if dir := os.Getenv("GOSYM_SLOW"); dir != "" && d > 3*time.Second && bodyForLog != "" {
			n := atomic.AddInt64(&slowSeq, 1)
			os.WriteFile(fmt.Sprintf("%s/slow-%d-%.0fs.smt2", dir, n, d.Seconds()), []byte(bodyForLog+"(check-sat)\n"), 0o644)
		}
	}()
	for _, a := range asserts {
		if a.IsFalse() {
			atomic.AddInt64(&s.Stats.Unsat, 1)
			return Unsat, nil
		}
	}
	body := tb.Script(asserts, vals)
	bodyForLog = body
	if s.Log != nil {
		fmt.Fprintf(s.Log, "(push 1)\n%s(check-sat)\n(pop 1)\n", body)
	}
	lines, err := s.roundTrip(s.prelude() + body + "(check-sat)\n")
	res := Unknown
	if err != nil {
		s.LastErr = err.Error()
		atomic.AddInt64(&s.Stats.Errors, 1)
		return Unknown, nil
	}
	hasErr := false
	if os.Getenv("GOSYM_NO_FALLBACK") == "" {
		isUnknown := true
		for _, l := range lines {
			if l == "sat" || l == "unsat" {
				isUnknown = false
			}
		}
		if isUnknown {
			// portfolio: the primary solver timed out (bit-blasting stalls on 64-bit linear arithmetic);
			// retry one-shot with int-blasting back ends.
			if r, out, ok := s.fallback(body, vals); ok {
				switch r {
				case Sat:
					atomic.AddInt64(&s.Stats.Sat, 1)
				case Unsat:
					atomic.AddInt64(&s.Stats.Unsat, 1)
				}
				atomic.AddInt64(&s.Stats.Fallbacks, 1)
				return r, out
			}
		}
	}
	for _, l := range lines {
		switch {
		case l == "sat":
			res = Sat
		case l == "unsat":
			res = Unsat
		case l == "unknown":
			res = Unknown
		case strings.HasPrefix(l, "(error"):
			hasErr = true
			s.LastErr = l
		}
	}
	if hasErr {
		atomic.AddInt64(&s.Stats.Errors, 1)
		return Unknown, nil
	}
	var out []uint64
	if res == Sat && len(vals) > 0 {
		var sb strings.Builder
		sb.WriteString("(get-value (")
		for _, v := range vals {
			sb.WriteString(ref(v))
			sb.WriteByte(' ')
		}
		sb.WriteString("))\n")
		lines, err = s.roundTrip(sb.String())
		if err != nil {
			atomic.AddInt64(&s.Stats.Errors, 1)
			return Unknown, nil
		}
		txt := strings.Join(lines, " ")
		if strings.Contains(txt, "(error") {
			s.LastErr = txt
			atomic.AddInt64(&s.Stats.Errors, 1)
				return Unknown, nil
		}
		out, err = parseValues(txt, vals)
		if err != nil {
			s.LastErr = err.Error() + " in " + txt
			atomic.AddInt64(&s.Stats.Errors, 1)
				return Unknown, nil
		}
	}
	switch res {
	case Sat:
		atomic.AddInt64(&s.Stats.Sat, 1)
	case Unsat:
		atomic.AddInt64(&s.Stats.Unsat, 1)
	default:
		atomic.AddInt64(&s.Stats.Unknown, 1)
	}
	s.Cross.offer(body, res)
	return res, out
}

// ---- s-expression parsing of get-value output ----

type sx struct {
	atom string
	list []*sx
}

func parseSx(s string, i int) (*sx, int, error) {
	for i < len(s) && (s[i] == ' ' || s[i] == '\n' || s[i] == '\t') {
		i++
	}
	if i >= len(s) {
		return nil, i, fmt.Errorf("eof")
	}
	if s[i] == '(' {
		i++
		n := &sx{list: []*sx{}}
		for {
			for i < len(s) && (s[i] == ' ' || s[i] == '\n' || s[i] == '\t') {
				i++
			}
			if i >= len(s) {
				return nil, i, fmt.Errorf("unbalanced")
			}
			if s[i] == ')' {
				return n, i + 1, nil
			}
			c, j, err := parseSx(s, i)
			if err != nil {
				return nil, j, err
			}
			n.list = append(n.list, c)
			i = j
		}
	}
	j := i
	for j < len(s) && s[j] != ' ' && s[j] != ')' && s[j] != '(' && s[j] != '\n' {
		j++
	}
	return &sx{atom: s[i:j]}, j, nil
}

func parseBV(a string) (uint64, int, bool) {
	if strings.HasPrefix(a, "#x") {
		v, err := strconv.ParseUint(a[2:], 16, 64)
		return v, 4 * (len(a) - 2), err == nil
	}
	if strings.HasPrefix(a, "#b") {
		v, err := strconv.ParseUint(a[2:], 2, 64)
		return v, len(a) - 2, err == nil
	}
	return 0, 0, false
}

func sxValue(n *sx, srt Sort) (uint64, error) {
	if n.list == nil {
		switch n.atom {
		case "true":
			return 1, nil
		case "false":
			return 0, nil
		}
		if v, _, ok := parseBV(n.atom); ok {
			return v, nil
		}
		return 0, fmt.Errorf("bad atom %q", n.atom)
	}
	l := n.list
	if len(l) == 4 && l[0].atom == "fp" {
		sg, _, ok1 := parseBV(l[1].atom)
		ex, _, ok2 := parseBV(l[2].atom)
		mn, _, ok3 := parseBV(l[3].atom)
		if ok1 && ok2 && ok3 {
			return sg<<63 | ex<<52 | mn, nil
		}
	}
	if len(l) >= 2 && l[0].atom == "_" {
		switch l[1].atom {
		case "+zero":
			return 0, nil
		case "-zero":
			return 1 << 63, nil
		case "+oo":
			return math.Float64bits(math.Inf(1)), nil
		case "-oo":
			return math.Float64bits(math.Inf(-1)), nil
		case "NaN":
			return math.Float64bits(math.NaN()), nil
		}
		if strings.HasPrefix(l[1].atom, "bv") {
			v, err := strconv.ParseUint(l[1].atom[2:], 10, 64)
			return v, err
		}
	}
	return 0, fmt.Errorf("bad value")
}

func parseValues(txt string, vals []*Term) ([]uint64, error) {
	root, _, err := parseSx(txt, 0)
	if err != nil {
		return nil, err
	}
	if len(root.list) != len(vals) {
		return nil, fmt.Errorf("get-value arity %d != %d", len(root.list), len(vals))
	}
	out := make([]uint64, len(vals))
	for i, p := range root.list {
		if len(p.list) != 2 {
			return nil, fmt.Errorf("bad pair")
		}
		v, err := sxValue(p.list[1], vals[i].Sort)
		if err != nil {
			return nil, err
		}
		out[i] = v
	}
	return out, nil
}


// fallback decides a query with one-shot runs of the other installed solvers (z3 5.x with
// int-blasting, cvc5 with --solve-bv-as-int), 60 s each. ok=false if none answered.
func (s *Solver) fallback(body string, vals []*Term) (Result, []uint64, bool) {
	var gv strings.Builder
	if len(vals) > 0 {
		gv.WriteString("(get-value (")
		for _, v := range vals {
			gv.WriteString(ref(v))
			gv.WriteByte(' ')
		}
		gv.WriteString("))\n")
	}
	type alt struct {
		bin  string
		args []string
		pre  string
	}
	alts := []alt{
		{"z3-new", []string{"-in", "-smt2", "-T:60", "tactic.default_tactic=smt", "smt.bv.solver=2"}, ""},
		{"cvc5", []string{"--lang", "smt2", "--produce-models", "--solve-bv-as-int=sum", "--tlimit=60000"}, "(set-logic ALL)\n"},
		{"z3-new", []string{"-in", "-smt2", "-T:60"}, ""},
	}
	for _, a := range alts {
		script := a.pre + body + "(check-sat)\n"
		cmd := exec.Command(a.bin, a.args...)
		cmd.Stdin = strings.NewReader(script + gv.String())
		outb, _ := cmd.Output()
		txt := string(outb)
		lines := strings.Split(txt, "\n")
		res := Unknown
		idx := -1
		for i, l := range lines {
			l = strings.TrimSpace(l)
			if l == "sat" {
				res, idx = Sat, i
				break
			}
			if l == "unsat" {
				res, idx = Unsat, i
				break
			}
		}
		if res == Unknown {
			continue
		}
		if strings.Contains(strings.Join(lines[:idx+1], "\n"), "(error") {
			continue
		}
		if res == Unsat || len(vals) == 0 {
			return res, nil, true
		}
		rest := strings.Join(lines[idx+1:], " ")
		if strings.Contains(rest, "(error") {
			continue
		}
		out, err := parseValues(rest, vals)
		if err != nil {
			continue
		}
		return Sat, out, true
	}
	return Unknown, nil, false
}

// envSolver: the deciding solver binary (default z3 4.8.12 = "z3"; GOSYM_SOLVER=z3-new selects 5.1).
func envSolver() string {
	if b := os.Getenv("GOSYM_SOLVER"); b != "" {
		return b
	}
	return "z3"
}
