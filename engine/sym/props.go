package sym

// Properties is the registry: which harness packages and entry prefix decide each property.
var Properties = map[string]*PropertySpec{
	"C03": {ID: "C03", Dirs: []string{"heap"}, Prefix: "ZvC03_",
		Bounds: map[string]string{"heap size N": "quick 6 / thorough 9 (single-sift ops)", "comparators": "<, >, uninterpreted strict weak order"},
		Outside: []string{"heaps larger than the size bound", "comparators that are not strict weak orders"},
		Stubs:  []string{"sync.RWMutex: engine lock objects", "fmt.Errorf: fresh opaque non-nil error"}},
}
