package sym

// Properties is the registry: which harness packages and entry prefix decide each property.
var Properties = map[string]*PropertySpec{
	"C03": {ID: "C03", Dirs: []string{"heap"}, Prefix: "ZvC03_",
		Bounds: map[string]string{"heap size N": "quick 6 / thorough 9 (single-sift ops)", "comparators": "<, >, uninterpreted strict weak order"},
		Outside: []string{"heaps larger than the size bound", "comparators that are not strict weak orders"},
		Stubs:  []string{"sync.RWMutex: engine lock objects", "fmt.Errorf: fresh opaque non-nil error"},
		LevelText: "Bounded symbolic model checking of the real heap code: one real operation from an arbitrary heap-ordered array (all sizes up to the bound, 64-bit symbolic elements, comparators <, > and an uninterpreted strict weak order) must re-establish heap order and the multiset contract on every feasible path (z3 unsat per assertion); plus API-only bounded histories. Inductive in the size-bounded state space; no claim beyond the bound.",
		LevelNote: "Trusted: go/ssa as semantics of the source, the engine's instruction semantics (every counterexample is replayed natively before it is reported), z3, lock stub. heap.Delete's re-sift defect is pinned by TestHeap_MaxHeap and recorded as two known findings scoped to (Delete of a present value, >=2 elements) x (no-panic, heap-order).",
		Technique: "SSA symbolic execution + SMT (z3), inductive step from arbitrary invariant state, native replay",
		DesignRef: "DESIGN.md §4 C03"},
}
