package sym

// Properties is the registry: which harness packages and entry prefix decide each property.
var Properties = map[string]*PropertySpec{
	"C03": {ID: "C03", Dirs: []string{"heap"}, Prefix: "ZvC03_",
		Bounds: map[string]string{"heap size N": "quick 6 / thorough 9 (single-sift ops)", "comparators": "<, >, uninterpreted strict weak order"},
		Outside: []string{"heaps larger than the size bound", "comparators that are not strict weak orders"},
		Stubs:  []string{"sync.RWMutex: engine lock objects", "fmt.Errorf: fresh opaque non-nil error"},
		LevelText: "Bounded symbolic model checking of the real heap code: one real operation from an arbitrary heap-ordered array (all sizes up to the bound, 64-bit symbolic elements, comparators <, > and an uninterpreted strict weak order) must re-establish heap order and the multiset contract on every feasible path (z3 unsat per assertion); plus API-only bounded histories. Inductive in the size-bounded state space; no claim beyond the bound.",
		LevelNote: "Trusted: go/ssa as semantics of the source, the engine's instruction semantics (every counterexample is replayed natively before it is reported), z3, lock stub. heap.Delete's re-sift defect is pinned by TestHeap_MaxHeap and recorded as two known findings scoped to (Delete of a present value, >=2 elements) x (no-panic, heap-order).",
		Technique: "SSA symbolic execution + SMT (z3), inductive step from arbitrary invariant state, native replay",
		DesignRef: "DESIGN.md §4 C03"},
	"C05": {ID: "C05", Dirs: []string{"queue"}, Prefix: "ZvC05_",
		Bounds: map[string]string{"Queue S1 length N": "quick 4 / thorough 6, offset 0-1, spare capacity 0 or 2, nil", "history length L": "Queue quick 4 / thorough 6; LQueue quick 5 / thorough 7 operations after NewLinked"},
		Outside: []string{"queues longer than the bound", "histories longer than L"},
		Stubs:  []string{"sync.RWMutex: engine lock objects", "fmt.Errorf: fresh opaque non-nil error"},
		LevelText: "Bounded symbolic model checking of the real queue code: slice queue by one inductive step from an arbitrary items slice (symbolic 64-bit elements), linked queue by every operation sequence up to L from NewLinked with symbolic values, each step compared with a sequence model; z3 decides every assertion on every path.",
		LevelNote: "Trusted: go/ssa semantics, engine instruction semantics (counterexamples replayed natively), z3, lock stub. Nothing claimed beyond the length bounds.",
		Technique: "SSA symbolic execution + SMT (z3), inductive step + bounded histories, native replay",
		DesignRef: "DESIGN.md §4 C05"},
	"C06": {ID: "C06", Dirs: []string{"stack"}, Prefix: "ZvC06_",
		Bounds: map[string]string{"Stack S1 length N": "quick 4 / thorough 6, offset 0-1, spare capacity 0 or 2, nil", "history length L": "Stack quick 4 / thorough 6; LStack quick 5 / thorough 7 operations after NewLinked"},
		Outside: []string{"stacks deeper than the bound", "histories longer than L"},
		Stubs:  []string{"sync.RWMutex: engine lock objects"},
		LevelText: "Bounded symbolic model checking of the real stack code: slice stack by one inductive step from an arbitrary items slice (symbolic 64-bit elements), linked stack by every operation sequence up to L from NewLinked with symbolic values, each step compared with a sequence model; z3 decides every assertion on every path.",
		LevelNote: "Trusted: go/ssa semantics, engine instruction semantics (counterexamples replayed natively), z3, lock stub. LStack.Pop's returned value for >=2 elements is pinned wrong by Example_linkedList and recorded as a known finding scoped to that clause.",
		Technique: "SSA symbolic execution + SMT (z3), inductive step + bounded histories, native replay",
		DesignRef: "DESIGN.md §4 C06"},
}
