package sym

import (
	"fmt"
	"go/constant"
	"go/token"
	"go/types"

	"golang.org/x/tools/go/ssa"
)

type deferred struct {
	fn   Value
	args []Value
	pos  token.Pos
}

type frame struct {
	th        *Thread
	fn        *ssa.Function
	block     *ssa.BasicBlock
	prev      *ssa.BasicBlock
	env       map[ssa.Value]Value
	defers    []*deferred
	caller    *frame
	panicking bool
	panicV    *goPanic
	result    Value
	depth     int
}

// Thread is one goroutine of the program under analysis, run on its own host goroutine; exactly one
// thread runs at a time (baton passing).
type Thread struct {
	R       *Run
	ID      int
	resume  chan struct{}
	done    bool
	started bool
	waiting func() bool // non-nil: blocked until it returns true
	waitWhy string
	top     *frame
	entry   func(th *Thread)
	held    map[string]int // lock key -> mode (1 read, 2 write)
	panicked *goPanic
	inPar   bool
	curOp   string
	pendVis bool // parked immediately before a visible operation (or blocked in one)
	lastFree interface{}
}

const maxSteps = 2_000_000
const maxDepth = 400

func (fr *frame) get(v ssa.Value) Value {
	switch v := v.(type) {
	case nil:
		return nil
	case *ssa.Const:
		return fr.th.R.constValue(v)
	case *ssa.Function:
		return &FuncV{Fn: v}
	case *ssa.Builtin:
		return &FuncV{Bltn: v}
	case *ssa.Global:
		return fr.th.R.globalPtr(v)
	}
	if x, ok := fr.env[v]; ok {
		return x
	}
	panic(fmt.Sprintf("get: no value for %T %s in %s", v, v.Name(), fr.fn))
}

func (r *Run) globalPtr(g *ssa.Global) Ptr {
	o, ok := r.globals[g]
	if !ok {
		et := g.Type().(*types.Pointer).Elem()
		o = r.newObject(r.zero(et), nil)
		o.Typ = et
		o.Label = "global:" + g.String()
		r.globals[g] = o
		if !isRepoPkg(g.Pkg.Pkg) {
			o.Label = "extglobal:" + g.String()
		}
	}
	return Ptr{Obj: o}
}

func (r *Run) constValue(c *ssa.Const) Value {
	t := c.Type()
	if c.Value == nil {
		return r.zero(t)
	}
	switch u := t.Underlying().(type) {
	case *types.Basic:
		switch {
		case u.Info()&types.IsBoolean != 0:
			return r.TB.Bool(constant.BoolVal(c.Value))
		case u.Info()&types.IsString != 0:
			return r.strConst(constant.StringVal(c.Value))
		case u.Info()&types.IsInteger != 0:
			w, signed := intInfo(u)
			if signed {
				v, _ := constant.Int64Val(constant.ToInt(c.Value))
				return r.TB.Int(w, v)
			}
			v, _ := constant.Uint64Val(constant.ToInt(c.Value))
			return r.TB.Const(BVSort(w), v)
		case u.Info()&types.IsFloat != 0:
			f, _ := constant.Float64Val(c.Value)
			if u.Kind() == types.Float32 {
				f = float64(float32(f))
			}
			return r.TB.Float(f)
		}
	}
	r.unsupported("constant of type %s", t)
	return nil
}

func (r *Run) strConst(s string) StringV {
	b := make([]*Term, len(s))
	for i := 0; i < len(s); i++ {
		b[i] = r.TB.Const(SBV8, uint64(s[i]))
	}
	return StringV{B: b}
}

func intInfo(b *types.Basic) (w int, signed bool) {
	switch b.Kind() {
	case types.Int, types.Int64, types.UntypedInt, types.UntypedRune:
		return 64, true
	case types.Int8:
		return 8, true
	case types.Int16:
		return 16, true
	case types.Int32:
		return 32, true
	case types.Uint, types.Uint64, types.Uintptr:
		return 64, false
	case types.Uint8:
		return 8, false
	case types.Uint16:
		return 16, false
	case types.Uint32:
		return 32, false
	}
	return 0, false
}

// ---- calls ----

func (th *Thread) targetPanic(msg string, pos token.Pos) {
	r := th.R
	panic(&goPanic{V: IfaceV{T: opaqueErrorType, V: &opaqueErr{msg: msg}}, Msg: msg, Pos: pos, Runtime: true})
	_ = r
}

func (th *Thread) call(caller *frame, pos token.Pos, fnv Value, args []Value) Value {
	f, _ := fnv.(*FuncV)
	if f == nil {
		th.targetPanic("call of nil function", pos)
	}
	if f.Native != nil {
		return f.Native(th, args)
	}
	if f.Bltn != nil {
		return th.callBuiltin(caller, pos, f.Bltn, args)
	}
	return th.callSSA(caller, pos, f.Fn, args, f.Env)
}

func (th *Thread) callSSA(caller *frame, pos token.Pos, fn *ssa.Function, args []Value, env []Value) Value {
	r := th.R
	if ic := lookupIntrinsic(fn); ic != nil {
		return ic(th, caller, pos, fn, args)
	}
	if fn.TypeParams().Len() > 0 && len(fn.TypeArgs()) == 0 {
		r.unsupported("uninstantiated generic %s", fn)
	}
	pkg := fnPackage(fn)
	if fn.Name() == "init" && fn.Pkg != nil && fn.Parent() == nil && fn.Signature.Recv() == nil && !initAllowed(pkg) {
		return nil
	}
	if pkg != nil && !isRepoPkg(pkg) && !allowedExternal(pkg) {
		if r.inInit {
			// package initialisation (e.g. a package-level regexp.MustCompile): the variable gets the
			// zero value instead of making every harness of the package undecidable; code that later
			// USES it calls into the un-modelled package again and is reported there
			return r.zeroResults(fn)
		}
		r.unsupported("call into un-modelled external function %s (at %s)", fn, r.E.Pos(pos))
	}
	if fn.Blocks == nil {
		r.unsupported("no body for function %s (called at %s)", fn, r.E.Pos(pos))
	}
	r.H.noteFunc(fn)
	fr := &frame{th: th, fn: fn, caller: caller, env: make(map[ssa.Value]Value, 16)}
	if caller != nil {
		fr.depth = caller.depth + 1
	}
	if fr.depth > maxDepth {
		// Sizes in the harnesses are tiny (a handful of nodes/elements): a call chain this deep on a
		// feasible path is runaway recursion in the code under test. Reported as a violation and
		// confirmed natively (stack overflow or no progress), never as a silent truncation.
		r.violation(r.H.Name+"/non-termination", fmt.Sprintf("call depth %d exceeded in %s: runaway recursion", maxDepth, fn), pos)
		r.end("nonterm", "call depth exceeded in %s", fn)
	}
	for i, p := range fn.Params {
		fr.env[p] = args[i]
	}
	for i, fv := range fn.FreeVars {
		fr.env[fv] = env[i]
	}
	fr.block = fn.Blocks[0]
	saved := th.top
	th.top = fr
	for fr.block != nil {
		th.runFrame(fr)
	}
	th.top = saved
	return fr.result
}

func (th *Thread) runFrame(fr *frame) {
	defer func() {
		if fr.block == nil {
			return
		}
		rec := recover()
		gp, ok := rec.(*goPanic)
		if !ok {
			panic(rec) // pathEnd or engine bug: propagate
		}
		fr.panicking = true
		fr.panicV = gp
		th.top = fr
		fr.runDefers()
		fr.block = fr.fn.Recover
		if fr.block == nil {
			// recovered, no named results: return zero value
			fr.result = th.R.zeroResults(fr.fn)
		}
	}()
	for {
		th.executePhis(fr)
		for _, instr := range fr.block.Instrs {
			if _, isPhi := instr.(*ssa.Phi); isPhi {
				continue
			}
			if th.visit(fr, instr) == kReturn {
				return
			}
		}
	}
}

func (r *Run) zeroResults(fn *ssa.Function) Value {
	res := fn.Signature.Results()
	switch res.Len() {
	case 0:
		return nil
	case 1:
		return r.zero(res.At(0).Type())
	}
	var t TupleV
	for i := 0; i < res.Len(); i++ {
		t = append(t, r.zero(res.At(i).Type()))
	}
	return t
}

func (th *Thread) executePhis(fr *frame) {
	var phis []*ssa.Phi
	for _, instr := range fr.block.Instrs {
		if p, ok := instr.(*ssa.Phi); ok {
			phis = append(phis, p)
		} else {
			break
		}
	}
	if len(phis) == 0 {
		return
	}
	idx := -1
	for i, p := range fr.block.Preds {
		if p == fr.prev {
			idx = i
			break
		}
	}
	if idx < 0 {
		panic("phi: predecessor not found")
	}
	tmp := make([]Value, len(phis))
	for i, p := range phis {
		tmp[i] = fr.get(p.Edges[idx])
	}
	for i, p := range phis {
		fr.env[p] = tmp[i]
	}
}

func (fr *frame) runDefers() {
	th := fr.th
	for len(fr.defers) > 0 {
		d := fr.defers[len(fr.defers)-1]
		fr.defers = fr.defers[:len(fr.defers)-1]
		func() {
			ok := false
			defer func() {
				if !ok {
					rec := recover()
					gp, isGo := rec.(*goPanic)
					if !isGo {
						panic(rec)
					}
					// deferred call started a new panic
					fr.panicking = true
					fr.panicV = gp
				}
			}()
			th.call(fr, d.pos, d.fn, d.args)
			ok = true
		}()
	}
	if fr.panicking {
		panic(fr.panicV)
	}
}

type cont int

const (
	kNext cont = iota
	kReturn
	kJump
)

func (th *Thread) prepareCall(fr *frame, c *ssa.CallCommon, pos token.Pos) (Value, []Value) {
	r := th.R
	v := fr.get(c.Value)
	var fn Value
	var args []Value
	if c.Method == nil {
		fn = v
	} else {
		recv := v.(IfaceV)
		if recv.T == nil {
			th.targetPanic("method call on nil interface", pos)
		}
		if f := r.lookupSpecialMethod(recv, c.Method); f != nil {
			fn = f
		} else {
			m := r.E.Prog.LookupMethod(recv.T, c.Method.Pkg(), c.Method.Name())
			if m == nil {
				r.unsupported("method %s not found on %s", c.Method.Name(), recv.T)
			}
			fn = &FuncV{Fn: m}
		}
		args = append(args, recv.V)
	}
	for _, a := range c.Args {
		args = append(args, fr.get(a))
	}
	return fn, args
}

func (th *Thread) visit(fr *frame, instr ssa.Instruction) cont {
	r := th.R
	r.steps++
	if r.steps > maxSteps {
		r.violation(r.H.Name+"/non-termination", fmt.Sprintf("step budget %d exceeded in %s: the path does not terminate within the unwinding bound", maxSteps, fr.fn), token.NoPos)
		r.end("nonterm", "step budget exceeded in %s", fr.fn)
	}
	if r.dead {
		panic(pathEnd{Kind: "dead"})
	}
	switch in := instr.(type) {
	case *ssa.DebugRef:
	case *ssa.UnOp:
		fr.env[in] = th.unop(fr, in)
	case *ssa.BinOp:
		fr.env[in] = th.binop(in.Op, in.X.Type(), fr.get(in.X), fr.get(in.Y), in.Pos())
	case *ssa.Call:
		fn, args := th.prepareCall(fr, &in.Call, in.Pos())
		fr.env[in] = th.call(fr, in.Pos(), fn, args)
		th.top = fr
	case *ssa.ChangeInterface:
		fr.env[in] = fr.get(in.X)
	case *ssa.ChangeType:
		fr.env[in] = fr.get(in.X)
	case *ssa.Convert:
		fr.env[in] = th.conv(in.Type(), in.X.Type(), fr.get(in.X), in.Pos())
	case *ssa.MultiConvert:
		fr.env[in] = th.conv(in.Type(), in.X.Type(), fr.get(in.X), in.Pos())
	case *ssa.MakeInterface:
		fr.env[in] = IfaceV{T: in.X.Type(), V: fr.get(in.X)}
	case *ssa.Extract:
		fr.env[in] = fr.get(in.Tuple).(TupleV)[in.Index]
	case *ssa.Slice:
		fr.env[in] = th.sliceOp(fr, in)
	case *ssa.Return:
		switch len(in.Results) {
		case 0:
		case 1:
			fr.result = fr.get(in.Results[0])
		default:
			var res TupleV
			for _, x := range in.Results {
				res = append(res, fr.get(x))
			}
			fr.result = res
		}
		fr.block = nil
		return kReturn
	case *ssa.RunDefers:
		fr.runDefers()
	case *ssa.Panic:
		v := fr.get(in.X)
		panic(&goPanic{V: v, Msg: "explicit panic: " + describe(v.(IfaceV).V), Pos: in.Pos()})
	case *ssa.Send:
		th.chanSend(fr.get(in.Chan).(*ChanObj), fr.get(in.X), in.Pos())
	case *ssa.Store:
		th.store(fr.get(in.Addr).(Ptr), fr.get(in.Val), in.Pos())
	case *ssa.If:
		c := fr.get(in.Cond).(*Term)
		succ := 1
		if r.Branch(c) {
			succ = 0
		}
		fr.prev, fr.block = fr.block, fr.block.Succs[succ]
		return kJump
	case *ssa.Jump:
		fr.prev, fr.block = fr.block, fr.block.Succs[0]
		return kJump
	case *ssa.Defer:
		fn, args := th.prepareCall(fr, &in.Call, in.Pos())
		if in.DeferStack != nil {
			r.unsupported("defer with explicit DeferStack")
		}
		fr.defers = append(fr.defers, &deferred{fn: fn, args: args, pos: in.Pos()})
	case *ssa.Go:
		fn, args := th.prepareCall(fr, &in.Call, in.Pos())
		r.spawn(func(t *Thread) { t.call(nil, in.Pos(), fn, args) }, false)
	case *ssa.MakeChan:
		sz := fr.get(in.Size).(*Term)
		n := r.Concretize(sz, 0, 8, true, "chan size")
		r.serial++
		fr.env[in] = &ChanObj{ID: r.serial, Cap: int(n), ET: in.Type().Underlying().(*types.Chan).Elem()}
	case *ssa.Alloc:
		et := in.Type().Underlying().(*types.Pointer).Elem()
		o := r.newObject(r.zero(et), nil)
		o.Typ = et
		fr.env[in] = Ptr{Obj: o}
	case *ssa.MakeSlice:
		ln := r.Concretize(fr.get(in.Len).(*Term), 0, maxSliceLen, true, "make len")
		cp := r.Concretize(fr.get(in.Cap).(*Term), 0, maxSliceLen, true, "make cap")
		if cp < ln {
			th.targetPanic("makeslice: cap out of range", in.Pos())
		}
		et := in.Type().Underlying().(*types.Slice).Elem()
		fr.env[in] = r.makeSlice(et, int(ln), int(cp))
	case *ssa.MakeMap:
		mt := in.Type().Underlying().(*types.Map)
		r.serial++
		fr.env[in] = &MapObj{ID: r.serial, KT: mt.Key(), VT: mt.Elem(), Epoch: r.epoch}
	case *ssa.Range:
		fr.env[in] = th.rangeIter(fr.get(in.X), in.X.Type())
	case *ssa.Next:
		fr.env[in] = th.iterNext(fr.get(in.Iter).(*Iter), in)
	case *ssa.FieldAddr:
		p := fr.get(in.X).(Ptr)
		if p.IsNil() {
			th.targetPanic("nil pointer dereference (field address)", in.Pos())
		}
		fr.env[in] = p.Sub(in.Field)
	case *ssa.Field:
		fr.env[in] = fr.get(in.X).(*StructV).F[in.Field]
	case *ssa.IndexAddr:
		fr.env[in] = th.indexAddr(fr, in)
	case *ssa.Index:
		fr.env[in] = th.index(fr, in)
	case *ssa.Lookup:
		fr.env[in] = th.lookup(fr, in)
	case *ssa.MapUpdate:
		m, _ := fr.get(in.Map).(*MapObj)
		if m == nil {
			th.targetPanic("assignment to entry in nil map", in.Pos())
		}
		th.mapUpdate(m, fr.get(in.Key), fr.get(in.Value))
	case *ssa.TypeAssert:
		fr.env[in] = th.typeAssert(in, fr.get(in.X).(IfaceV))
	case *ssa.MakeClosure:
		var bs []Value
		for _, b := range in.Bindings {
			bs = append(bs, fr.get(b))
		}
		fr.env[in] = &FuncV{Fn: in.Fn.(*ssa.Function), Env: bs}
	case *ssa.Select:
		fr.env[in] = th.selectOp(fr, in)
	case *ssa.SliceToArrayPointer:
		r.unsupported("SliceToArrayPointer")
	default:
		r.unsupported("instruction %T", instr)
	}
	return kNext
}
