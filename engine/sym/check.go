package sym

import (
	"bufio"
	"encoding/json"
	"fmt"
	"math/rand"
	"os"
	"path/filepath"
	"regexp"
	"sort"
	"strings"
	"time"
)

// PropertySpec says which harness packages and entries decide a property.
type PropertySpec struct {
	ID       string
	Dirs     []string // harness dirs to load
	Prefix   string   // harness entry prefix
	Covers   []string // mandatory cover points (vacuity guard)
	Outside  []string // stated as outside the claim
	Stubs    []string
	Bounds   map[string]string // tier-independent description of bounds (quick/thorough)
	PreemptQ int
	PreemptT int
	// manifest texts
	LevelText string
	LevelNote string
	Technique string
	DesignRef string
}

type KnownFinding struct {
	Status     string // known | fixed
	Property   string
	Obligation string
	Text       string
}

func LoadKnownFindings(path string) ([]KnownFinding, error) {
	f, err := os.Open(path)
	if err != nil {
		if os.IsNotExist(err) {
			return nil, nil
		}
		return nil, err
	}
	defer f.Close()
	var out []KnownFinding
	sc := bufio.NewScanner(f)
	re := regexp.MustCompile(`^(known|fixed):\s+property=(\S+)\s+(?:obligation=(\S+)\s+)?(.*)$`)
	for sc.Scan() {
		l := strings.TrimSpace(sc.Text())
		if l == "" || strings.HasPrefix(l, "#") {
			continue
		}
		m := re.FindStringSubmatch(l)
		if m == nil {
			continue
		}
		out = append(out, KnownFinding{Status: m[1], Property: m[2], Obligation: m[3], Text: strings.TrimSpace(strings.TrimPrefix(strings.TrimSpace(m[4]), "::"))})
	}
	return out, sc.Err()
}

type CheckOptions struct {
	Repo, Verif string
	Tier        string
	Workers     int
	Only        string // regexp on harness names
	Seed        int64
	NoReplay    bool
	Verbose     bool
	MaxPaths    int64
}

type HarnessReport struct {
	Name       string            `json:"harness"`
	Paths      int64             `json:"paths"`
	Branches   int64             `json:"symbolic_branch_decisions"`
	Ends       map[string]int    `json:"path_ends"`
	Obligs     int               `json:"obligation_checks"`
	Discharged int               `json:"discharged"`
	Covers     []string          `json:"cover_points_reached"`
	WallS      float64           `json:"wall_s"`
	Notes      map[string]string `json:"notes,omitempty"`
}

// RunProperty explores every harness of the property and writes the evidence file.
// Exit codes: 0 ok, 1 violation, 2 inconclusive.
func RunProperty(spec *PropertySpec, opt CheckOptions) int {
	t0 := time.Now()
	tier := 0
	if opt.Tier == "thorough" {
		tier = 1
	}
	e, err := Load(opt.Repo, opt.Verif, append([]string{"zzvrt"}, spec.Dirs...))
	if err != nil {
		fmt.Printf("INCONCLUSIVE property=%s: cannot load /repo with harness overlay: %v\n", spec.ID, err)
		writeEvidence(spec, opt, nil, nil, nil, time.Since(t0), []string{"load error: " + err.Error()}, &SolverStats{}, nil, 0)
		return 2
	}
	e.Tier = tier
	e.KnownIDs = map[string]bool{}
	if kf0, _ := LoadKnownFindings(filepath.Join(opt.Verif, "KNOWN_FINDINGS.txt")); kf0 != nil {
		for _, k := range kf0 {
			if k.Property == spec.ID && k.Status == "known" {
				e.KnownIDs[k.Obligation] = true
			}
		}
	}
	e.PreemptBound = spec.PreemptQ
	if tier == 1 {
		e.PreemptBound = spec.PreemptT
	}
	loadS := time.Since(t0).Seconds()
	var names []string
	var only *regexp.Regexp
	if opt.Only != "" {
		only = regexp.MustCompile(opt.Only)
	}
	for n := range e.Harnesses {
		if strings.HasPrefix(n, spec.Prefix) && (only == nil || only.MatchString(n)) {
			names = append(names, n)
		}
	}
	sort.Strings(names)
	if len(names) == 0 {
		fmt.Printf("INCONCLUSIVE property=%s: no harness entries (dropped: %v)\n", spec.ID, e.Dropped)
		writeEvidence(spec, opt, e, nil, nil, time.Since(t0), []string{"no harness entries"}, &SolverStats{}, nil, loadS)
		return 2
	}
	stats := &SolverStats{}
	var cross *crossSampler
	if !opt.NoReplay {
		// quick: every 97th query, at most 150; thorough: every 41st, at most 1500
		cross = &crossSampler{every: 97, max: 150}
		if tier == 1 {
			cross = &crossSampler{every: 41, max: 1500}
		}
	}
	var runs []*HarnessRun
	var reports []*HarnessReport
	var problems []string
	for _, n := range names {
		h := NewHarnessRun(e, n, e.Harnesses[n])
		if !opt.NoReplay {
			h.WitnessMax = 2 + 3*tier
			h.rng = rand.New(rand.NewSource(opt.Seed*7919 + int64(len(runs))))
		}
		if opt.MaxPaths > 0 {
			h.MaxPaths = opt.MaxPaths
		}
		hs := time.Now()
		h.ExploreWith(opt.Workers, stats, nil, cross)
		rep := &HarnessReport{Name: n, Paths: h.Paths, Branches: h.Branches, Ends: h.Ends, WallS: time.Since(hs).Seconds(), Notes: map[string]string{}}
		for _, o := range h.Obligs {
			rep.Obligs += o.Checked
			rep.Discharged += o.Discharged
		}
		rep.Covers = sortedKeys(h.Covers)
		for k, m := range h.EndMsgs {
			rep.Notes[k] = m
		}
		for _, k := range []string{"unsupported", "unknown", "budget", "bound", "engine-bug", "fatal"} {
			if k == "fatal" {
				continue // reported as a violation
			}
			if h.Ends[k] > 0 {
				problems = append(problems, fmt.Sprintf("%s: %d path(s) ended as %s: %s", n, h.Ends[k], k, h.EndMsgs[k]))
			}
		}
		if h.Budget {
			problems = append(problems, fmt.Sprintf("%s: path budget %d exceeded", n, h.MaxPaths))
		}
		if !h.Covers[n+"/end"] && h.Ends["done"] == 0 {
			problems = append(problems, fmt.Sprintf("%s: no path reached the end of the harness (vacuous)", n))
		}
		if opt.Verbose {
			fmt.Printf("  %-40s paths=%-7d branches=%-8d ends=%v %.1fs\n", n, h.Paths, h.Branches, h.Ends, rep.WallS)
		}
		runs = append(runs, h)
		reports = append(reports, rep)
	}
	// mandatory cover points
	allCovers := map[string]bool{}
	for _, h := range runs {
		for c := range h.Covers {
			allCovers[c] = true
		}
	}
	if only == nil {
		for _, c := range spec.Covers {
			if !allCovers[c] {
				problems = append(problems, "mandatory cover point not reached: "+c)
			}
		}
	}
	// violations
	kfs, _ := LoadKnownFindings(filepath.Join(opt.Verif, "KNOWN_FINDINGS.txt"))
	knownObl := map[string]KnownFinding{}
	for _, k := range kfs {
		if k.Property == spec.ID && k.Status == "known" {
			knownObl[k.Obligation] = k
		}
	}
	exit := 0
	nviol := 0
	replayed := 0
	knownPrinted := map[string]bool{}
	var knownRepro []string
	var vsamples []interface{}
	os.MkdirAll(filepath.Join(opt.Verif, "replays"), 0o755)
	// Violations: known findings are reported as such; the others are confirmed natively before they
	// are printed. Confirmation has a budget per run (one native build per harness dir and shim
	// mode, at most maxReplays replays, distinct obligations first): one confirmed violation already
	// decides the run, the rest are listed in the evidence as not replayed.
	const maxReplays = 8
	nb := newNativeBins(opt.Repo, opt.Verif, names)
	defer nb.close()
	var pending []*Violation
	for _, h := range runs {
		for _, v := range h.Violations {
			if v.Known {
				if k, ok := knownObl[v.ID]; ok {
					if !knownPrinted[v.ID] {
						knownPrinted[v.ID] = true
						fmt.Printf("KNOWN-FINDING: property=%s %s :: %s\n", spec.ID, v.ID, k.Text)
						knownRepro = append(knownRepro, v.ID)
					}
					continue
				}
			}
			pending = append(pending, v)
		}
	}
	// distinct obligations first
	seenID := map[string]int{}
	sort.SliceStable(pending, func(i, j int) bool { return false })
	var ordered, later []*Violation
	for _, v := range pending {
		if seenID[v.ID] == 0 {
			ordered = append(ordered, v)
		} else {
			later = append(later, v)
		}
		seenID[v.ID]++
	}
	ordered = append(ordered, later...)
	notReplayed := 0
	for _, v := range ordered {
		path := writeReplay(opt.Verif, spec.ID, tier, v)
		status := "unconfirmed"
		if !opt.NoReplay {
			if replayed >= maxReplays && nviol > 0 {
				notReplayed++
				continue
			}
			ok, out := nb.replay(path)
			replayed++
			if ok {
				status = "confirmed"
			} else {
				status = "NOT reproduced natively: " + out
			}
		}
		if status == "confirmed" || opt.NoReplay {
			nviol++
			exit = 1
			fmt.Printf("VIOLATION property=%s replay=%s\n", spec.ID, path)
			fmt.Printf("  harness=%s obligation=%s at %s: %s [%s]\n", v.Harness, v.ID, v.Pos, v.Msg, status)
		} else {
			problems = append(problems, fmt.Sprintf("UNCONFIRMED counterexample %s/%s (%s): %s", v.Harness, v.ID, path, status))
		}
		if len(vsamples) < 5 {
			vsamples = append(vsamples, map[string]interface{}{"violation": v.ID, "harness": v.Harness, "replay": path, "status": status})
		}
	}
	if notReplayed > 0 {
		fmt.Printf("NOTE property=%s: %d further counterexample(s) of the solver were not replayed natively (replay budget %d reached after a confirmed violation); their replay files are in %s\n", spec.ID, notReplayed, maxReplays, filepath.Join(opt.Verif, "replays"))
	}
	if len(e.Dropped) > 0 {
		fmt.Printf("NOTE property=%s: harness files dropped (no longer type-check against /repo): %v\n", spec.ID, e.Dropped)
	}
	if len(problems) > 0 {
		for _, p := range problems {
			fmt.Printf("INCONCLUSIVE property=%s: %s\n", spec.ID, p)
		}
		if exit == 0 {
			exit = 2
		}
	}
	var val *validationResult
	if !opt.NoReplay && exit != 1 {
		val = validateWitnesses(opt, spec, tier, runs)
		for _, d := range val.Disagreements {
			fmt.Printf("INCONCLUSIVE property=%s: translator validation: %s\n", spec.ID, d)
			problems = append(problems, "translator validation: "+d)
		}
		if len(val.Disagreements) > 0 && exit == 0 {
			exit = 2
		}
	}
	var cr *crossResult
	if cross != nil && exit != 1 {
		cr = cross.run()
		for _, d := range cr.Disagreements {
			fmt.Printf("INCONCLUSIVE property=%s: solver disagreement: %s\n", spec.ID, d)
			problems = append(problems, "solver disagreement: "+d)
		}
		if len(cr.Disagreements) > 0 && exit == 0 {
			exit = 2
		}
	}
	ev := writeEvidence(spec, opt, e, runs, reports, time.Since(t0), problems, stats, knownRepro, loadS)
	if cr != nil {
		ev.doc["coverage"].(map[string]interface{})["solver_cross_check"] = cr
	}
	if val != nil {
		ev.doc["coverage"].(map[string]interface{})["translator_validation"] = val
		replayed += val.Agreed
	}
	ev.update(nviol, replayed, vsamples, opt)
	if exit == 0 {
		fmt.Printf("OK property=%s tier=%s harnesses=%d paths=%d obligations=%d solver_s=%.1f wall_s=%.1f\n",
			spec.ID, opt.Tier, len(runs), ev.totalPaths, ev.totalObl, float64(stats.Nanos)/1e9, time.Since(t0).Seconds())
	}
	return exit
}

type replayFileDoc struct {
	Property string `json:"property"`
	Tier     int    `json:"tier"`
	*Violation
}

func writeReplayTo(path, prop string, tier int, v *Violation) {
	data, _ := json.MarshalIndent(replayFileDoc{prop, tier, v}, "", " ")
	os.WriteFile(path, data, 0o644)
}

func writeReplay(verif, prop string, tier int, v *Violation) string {
	data, _ := json.MarshalIndent(replayFileDoc{prop, tier, v}, "", " ")
	sum := 0
	for _, b := range data {
		sum = (sum*31 + int(b)) & 0xffffff
	}
	id := strings.NewReplacer("/", "_", " ", "_").Replace(v.ID)
	path := filepath.Join(verif, "replays", fmt.Sprintf("%s-%s-%s-%06x.json", prop, v.Harness, id, sum))
	os.WriteFile(path, data, 0o644)
	return path
}

// ---- evidence ----

type evidenceState struct {
	path       string
	doc        map[string]interface{}
	totalPaths int64
	totalObl   int
}

func writeEvidence(spec *PropertySpec, opt CheckOptions, e *Engine, runs []*HarnessRun, reports []*HarnessReport,
	wall time.Duration, problems []string, stats *SolverStats, knownRepro []string, loadS float64) *evidenceState {
	cov := map[string]interface{}{}
	var states, transitions, evals, nontriv int64
	obl, dis := 0, 0
	funcs := map[string]int{}
	var samples []interface{}
	covers := map[string]bool{}
	oblByID := map[string]*ObligStat{}
	for _, h := range runs {
		states += int64(h.Ends["done"])
		evals += h.Paths
		nontriv += h.NonTrivial
		transitions += h.Branches
		for f, n := range h.Funcs {
			funcs[f] += n
		}
		for c := range h.Covers {
			covers[c] = true
		}
		for id, o := range h.Obligs {
			obl += o.Checked
			dis += o.Discharged
			a := oblByID[id]
			if a == nil {
				a = &ObligStat{}
				oblByID[id] = a
			}
			a.Checked += o.Checked
			a.Discharged += o.Discharged
			a.Violated += o.Violated
			a.KnownHit += o.KnownHit
		}
		for _, s := range h.Samples {
			if len(samples) < 6 {
				samples = append(samples, map[string]interface{}{"harness": h.Name, "path": s})
			}
		}
	}
	if len(samples) == 0 {
		samples = append(samples, "no path completed")
	}
	var fnames []string
	for f := range funcs {
		if strings.Contains(f, RepoMod) && !strings.Contains(f, "zzvrt") && !strings.Contains(f, ".Zv") && !strings.Contains(f, ".zv") {
			fnames = append(fnames, f)
		}
	}
	sort.Strings(fnames)
	if states == 0 {
		states = 1
	}
	if transitions == 0 {
		transitions = 1
	}
	cov["states"] = states
	cov["transitions"] = transitions
	cov["traces_validated_against_impl"] = 0
	cov["samples"] = samples
	if evals == 0 {
		evals = 1
	}
	cov["evaluations"] = evals
	cov["distinct_nontrivial"] = nontriv
	cov["rule"] = "evaluations = symbolic paths executed (every way a path ended: completed, infeasible assumption, ended at a known finding, ...); states = those that ran the harness to its end; distinct_nontrivial = completed paths on which at least one obligation was checked by the solver, counted during the run (paths are distinct by construction: their path conditions are pairwise disjoint, each stands for the whole set of inputs satisfying it)"
	cov["exhaustive"] = len(problems) == 0
	cov["obligations"] = obl
	cov["discharged"] = dis
	cov["obligation_ids"] = oblByID
	cov["functions_encoded"] = fnames
	cov["harnesses"] = reports
	cov["cover_points"] = sortedKeys(covers)
	cov["queries"] = map[string]int64{"sat": stats.Sat, "unsat": stats.Unsat, "unknown": stats.Unknown, "errors": stats.Errors, "decided_by_fallback_solver": stats.Fallbacks}
	cov["solver_s"] = float64(stats.Nanos) / 1e9
	cov["load_s"] = loadS
	cov["solver"] = "z3 4.8.12 (/usr/bin/z3), self-contained SMT-LIB2 queries after (reset) over one pipe per worker, 8 s cap; on timeout a one-shot portfolio decides the same query: z3 5.1 int-blasting (smt.bv.solver=2), cvc5 --solve-bv-as-int=sum, z3 5.1 default (60 s each); no answer = inconclusive"
	cov["bounds"] = spec.Bounds
	cov["outside_bounds"] = spec.Outside
	cov["stubs"] = spec.Stubs
	cov["known_findings_reproduced"] = knownRepro
	cov["inconclusive"] = problems
	if e != nil {
		cov["dropped_harness_files"] = e.Dropped
	}
	doc := map[string]interface{}{
		"property_id": spec.ID,
		"tier":        opt.Tier,
		"seed":        opt.Seed,
		"level":       "model_checking",
		"coverage":    cov,
		"assumptions": append([]string{
			"go/types + go/ssa (x/tools v0.29.0) give the semantics of /repo's current source; the engine's instruction semantics are the trusted translator",
			"bounded: only the sizes/lengths/thread counts listed under bounds are covered; nothing is claimed outside them",
		}, spec.Stubs...),
		"wall_s":     wall.Seconds(),
		"violations": 0,
	}
	evDir := filepath.Join(opt.Verif, "evidence")
	if d := os.Getenv("VERIF_EVIDENCE_DIR"); d != "" {
		evDir = d // self-tests against scratch copies must not overwrite the evidence of /repo
	}
	st := &evidenceState{path: filepath.Join(evDir, spec.ID+".json"), doc: doc, totalPaths: states, totalObl: obl}
	st.flush()
	return st
}

func (s *evidenceState) update(nviol, replayed int, vsamples []interface{}, opt CheckOptions) {
	s.doc["violations"] = nviol
	cov := s.doc["coverage"].(map[string]interface{})
	cov["traces_validated_against_impl"] = replayed
	if len(vsamples) > 0 {
		cov["violation_samples"] = vsamples
	}
	s.flush()
}

func (s *evidenceState) flush() {
	os.MkdirAll(filepath.Dir(s.path), 0o755)
	data, _ := json.MarshalIndent(s.doc, "", " ")
	os.WriteFile(s.path, data, 0o644)
}
