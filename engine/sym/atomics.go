package sym

import (
	"go/token"
	"go/types"

	"golang.org/x/tools/go/ssa"
)

// sync/atomic: the function forms (AddInt64, LoadInt64, StoreInt64, SwapInt64,
// CompareAndSwapInt64 and their Int32/Uint32/Uint64 siblings) and the typed values
// (atomic.Int32/Int64/Uint32/Uint64/Bool). Each operation is one indivisible step and, in
// concurrency mode, a scheduling point; being synchronisation operations they are not subject to
// the lock-discipline rule (no access is logged for the race monitor).

func atomicCell(th *Thread, p Ptr, pos token.Pos) Ptr {
	if p.IsNil() {
		th.targetPanic("nil pointer dereference (atomic)", pos)
	}
	// typed values: the payload is the last field of the struct (noCopy / align fields first)
	if st, ok := walk(p.Obj.V, p.Path).(*StructV); ok {
		q := Ptr{Obj: p.Obj, Path: append(append([]int(nil), p.Path...), len(st.F)-1)}
		return q
	}
	return p
}

func atomicLoad(th *Thread, p Ptr, pos token.Pos) Value {
	th.yield()
	c := atomicCell(th, p, pos)
	return walk(c.Obj.V, c.Path)
}

func atomicStore(th *Thread, p Ptr, v Value, pos token.Pos) {
	c := atomicCell(th, p, pos)
	c.Obj.V = update(c.Obj.V, c.Path, v)
}

func addAtomicIntrinsics() {
	I := intrinsics
	widthOf := func(t types.Type) int {
		if b, ok := t.Underlying().(*types.Basic); ok {
			if w, _ := intInfo(b); w > 0 {
				return w
			}
		}
		return 64
	}
	load := func(th *Thread, _ *frame, pos token.Pos, _ *ssa.Function, a []Value) Value {
		return atomicLoad(th, a[0].(Ptr), pos)
	}
	store := func(th *Thread, _ *frame, pos token.Pos, _ *ssa.Function, a []Value) Value {
		th.yield()
		atomicStore(th, a[0].(Ptr), a[1], pos)
		return nil
	}
	add := func(th *Thread, _ *frame, pos token.Pos, fn *ssa.Function, a []Value) Value {
		old := atomicLoad(th, a[0].(Ptr), pos).(*Term)
		nv := th.R.TB.Bin(OAdd, old, term(a[1]))
		atomicStore(th, a[0].(Ptr), nv, pos)
		return nv
	}
	swap := func(th *Thread, _ *frame, pos token.Pos, _ *ssa.Function, a []Value) Value {
		old := atomicLoad(th, a[0].(Ptr), pos)
		atomicStore(th, a[0].(Ptr), a[1], pos)
		return old
	}
	cas := func(th *Thread, _ *frame, pos token.Pos, _ *ssa.Function, a []Value) Value {
		old := atomicLoad(th, a[0].(Ptr), pos).(*Term)
		if th.R.Branch(th.R.TB.Eq(old, term(a[1]))) {
			atomicStore(th, a[0].(Ptr), a[2], pos)
			return th.R.TB.True
		}
		return th.R.TB.False
	}
	_ = widthOf
	for _, ty := range []string{"Int32", "Int64", "Uint32", "Uint64"} {
		I["sync/atomic.Load"+ty] = load
		I["sync/atomic.Store"+ty] = store
		I["sync/atomic.Add"+ty] = add
		I["sync/atomic.Swap"+ty] = swap
		I["sync/atomic.CompareAndSwap"+ty] = cas
		I["(*sync/atomic."+ty+").Load"] = load
		I["(*sync/atomic."+ty+").Store"] = store
		I["(*sync/atomic."+ty+").Add"] = add
		I["(*sync/atomic."+ty+").Swap"] = swap
		I["(*sync/atomic."+ty+").CompareAndSwap"] = cas
	}
	// atomic.Bool is a struct around a uint32; its methods are plain Go over the function forms,
	// but they are not in an allowed package: model them directly on a Bool payload
	I["(*sync/atomic.Bool).Load"] = func(th *Thread, _ *frame, pos token.Pos, _ *ssa.Function, a []Value) Value {
		v := atomicLoad(th, a[0].(Ptr), pos).(*Term)
		if v.Sort == SBool {
			return v
		}
		return th.R.TB.Not(th.R.TB.Eq(v, th.R.TB.Const(v.Sort, 0)))
	}
	I["(*sync/atomic.Bool).Store"] = func(th *Thread, _ *frame, pos token.Pos, _ *ssa.Function, a []Value) Value {
		th.yield()
		c := atomicCell(th, a[0].(Ptr), pos)
		old := walk(c.Obj.V, c.Path).(*Term)
		nv := term(a[1])
		if old.Sort != SBool {
			nv = th.R.TB.Ite(nv, th.R.TB.Const(old.Sort, 1), th.R.TB.Const(old.Sort, 0))
		}
		c.Obj.V = update(c.Obj.V, c.Path, nv)
		return nil
	}
}
