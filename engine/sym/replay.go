package sym

import (
	"context"
	"encoding/json"
	"fmt"
	"os"
	"os/exec"
	"path/filepath"
	"regexp"
	"strings"
	"time"
)

type replayDoc struct {
	Property string      `json:"property"`
	Harness  string      `json:"harness"`
	ID       string      `json:"id"`
	Nondet   []NondetRec `json:"nondet"`
	Fired    []int       `json:"timers_fired"`
	Sched    []int       `json:"schedule"`
	MapOrders []int      `json:"map_orders"`
}

// isRace: a lock-discipline finding, confirmed with the race detector on free-running goroutines.
func (d *replayDoc) isRace() bool { return strings.HasPrefix(d.ID, "race/") }

// usesSched: the counterexample depends on an interleaving, so the native build gets the
// scheduling shim for package sync and searches the interleavings.
func (d *replayDoc) usesSched() bool { return len(d.Sched) > 0 && !d.isRace() }

var sfImportRe = regexp.MustCompile(`(?m)^(\s*)"golang.org/x/sync/singleflight"\s*$`)

var syncImportRe = regexp.MustCompile(`(?m)^(\s*)"sync"\s*$`)

// goFilesImporting lists the non-test Go files under root (relative paths) whose import block
// names the package on a line of its own.
func goFilesImporting(root string, re *regexp.Regexp) []string {
	var out []string
	filepath.Walk(root, func(p string, info os.FileInfo, err error) error {
		if err != nil {
			return nil
		}
		if info.IsDir() {
			if n := info.Name(); p != root && (strings.HasPrefix(n, ".") || strings.HasPrefix(n, "zz") || n == "testdata") {
				return filepath.SkipDir
			}
			return nil
		}
		if !strings.HasSuffix(p, ".go") || strings.HasSuffix(p, "_test.go") {
			return nil
		}
		if data, e := os.ReadFile(p); e == nil && re.Match(data) {
			rel, _ := filepath.Rel(root, p)
			out = append(out, rel)
		}
		return nil
	})
	return out
}

// usesClock: the counterexample read the symbolic clock, so the native build needs the time shim.
func (d *replayDoc) usesClock() bool {
	for _, n := range d.Nondet {
		if n.Kind == "clock" {
			return true
		}
	}
	return len(d.Fired) > 0
}

// clockFiles are the repo files whose "time" import is redirected to the virtual clock.
var clockFiles = []string{"cache/cache.go", "func.go", "memoize.go"}

var timeImportRe = regexp.MustCompile(`(?m)^(\s*)"time"\s*$`)

// findHarnessDir locates the harness dir that declares the entry function.
func findHarnessDir(verif, harness string) (string, string, error) {
	dirs, err := harnessDirs(verif)
	if err != nil {
		return "", "", err
	}
	re := regexp.MustCompile(`(?m)^func ` + regexp.QuoteMeta(harness) + `\(`)
	for hd, rel := range dirs {
		files, _ := filepath.Glob(filepath.Join(verif, "harness", hd, "*.go"))
		for _, f := range files {
			data, _ := os.ReadFile(f)
			if re.Match(data) {
				return hd, rel, nil
			}
		}
	}
	return "", "", fmt.Errorf("harness %s not found", harness)
}

// nativeMode says which shims a native build needs.
type nativeMode struct{ clock, sched, race bool }

func (d *replayDoc) mode() nativeMode {
	return nativeMode{clock: d.usesClock(), sched: d.usesSched(), race: d.isRace()}
}

var nativeEnv = []string{"GOFLAGS=-mod=mod", "GOPROXY=off", "GOSUMDB=off", "GOTOOLCHAIN=local", "GOWORK=off"}

// buildNative compiles the harnesses of one harness dir natively against the real build of repo
// (overlay only, nothing is written under repo). The binary runs the harness named by $ZV_HARNESS.
// The caller removes tmp.
func buildNative(repo, verif, hd, rel string, harnesses []string, md nativeMode) (bin, tmp string, err error) {
	tmp, err = os.MkdirTemp("", "gosym-replay-")
	if err != nil {
		return "", "", err
	}
	imp := RepoMod
	if rel != "." {
		imp = RepoMod + "/" + rel
	}
	var sb strings.Builder
	fmt.Fprintf(&sb, "package main\n\nimport (\n\t\"fmt\"\n\t\"os\"\n\th %q\n\tvrt %q\n)\n\nfunc main() {\n\tswitch os.Getenv(\"ZV_HARNESS\") {\n", imp, RepoMod+"/zzvrt")
	for _, h := range harnesses {
		fmt.Fprintf(&sb, "\tcase %q:\n\t\tvrt.RunSchedules(h.%s)\n", h, h)
	}
	sb.WriteString("\tdefault:\n\t\tfmt.Println(\"ZV: unknown harness\")\n\t\tos.Exit(7)\n\t}\n\tfmt.Println(vrt.EndLine())\n}\n")
	mainPath := filepath.Join(tmp, "main.go")
	os.WriteFile(mainPath, []byte(sb.String()), 0o644)
	repl := map[string]string{filepath.Join(repo, "zzvmain", "main.go"): mainPath}
	for _, d := range []string{hd, "zzvrt"} {
		r := d
		if d == hd {
			r = rel
		}
		files, _ := filepath.Glob(filepath.Join(verif, "harness", d, "*.go"))
		for _, f := range files {
			repl[filepath.Join(repo, r, filepath.Base(f))] = f
		}
	}
	// source-to-source redirection of imports, in overlay copies only
	type redirect struct {
		re   *regexp.Regexp
		repl string
	}
	var reds []redirect
	if md.clock {
		files, _ := filepath.Glob(filepath.Join(verif, "harness", "zzvtime", "*.go"))
		for _, f := range files {
			repl[filepath.Join(repo, "zzvtime", filepath.Base(f))] = f
		}
		reds = append(reds, redirect{timeImportRe, `${1}time "` + RepoMod + `/zzvtime"`})
	}
	if md.sched {
		files, _ := filepath.Glob(filepath.Join(verif, "harness", "zzvsync", "*.go"))
		for _, f := range files {
			repl[filepath.Join(repo, "zzvsync", filepath.Base(f))] = f
		}
		reds = append(reds, redirect{syncImportRe, `${1}sync "` + RepoMod + `/zzvsync"`})
		// Memoize's callers synchronise inside golang.org/x/sync/singleflight (module cache). A
		// dependency module cannot import the shim, so the REAL singleflight source is compiled as
		// an overlay package of the repo (import of sync redirected) and memoize.go imports that.
		lm := exec.Command("go", "list", "-m", "-f", "{{.Dir}}", "golang.org/x/sync")
		lm.Dir = repo
		lm.Env = append(os.Environ(), nativeEnv...)
		if out, err := lm.Output(); err == nil {
			if d := strings.TrimSpace(string(out)); d != "" {
				if src, err := os.ReadFile(filepath.Join(d, "singleflight", "singleflight.go")); err == nil {
					dst := filepath.Join(tmp, "zzvsf.go")
					os.WriteFile(dst, syncImportRe.ReplaceAll(src, []byte(`${1}sync "`+RepoMod+`/zzvsync"`)), 0o644)
					repl[filepath.Join(repo, "zzvsf", "singleflight.go")] = dst
					reds = append(reds, redirect{sfImportRe, `${1}singleflight "` + RepoMod + `/zzvsf"`})
				}
			}
		}
	}
	nred := 0
	for _, rd := range reds {
		var targets []string // absolute virtual paths
		if rd.re == timeImportRe {
			for _, rel := range clockFiles {
				targets = append(targets, filepath.Join(repo, rel))
			}
		} else {
			for _, rel := range goFilesImporting(repo, rd.re) {
				targets = append(targets, filepath.Join(repo, rel))
			}
			// harness files of the package under test that build sync objects themselves
			for virt, real := range repl {
				if strings.HasPrefix(filepath.Base(virt), "zv_") {
					if data, e := os.ReadFile(real); e == nil && rd.re.Match(data) {
						targets = append(targets, virt)
					}
				}
			}
		}
		for _, virt := range targets {
			srcPath := virt
			if real, ok := repl[virt]; ok {
				srcPath = real
			}
			src, err := os.ReadFile(srcPath)
			if err != nil {
				continue
			}
			out := rd.re.ReplaceAll(src, []byte(rd.repl))
			dst := filepath.Join(tmp, fmt.Sprintf("redir%d.go", nred))
			nred++
			os.WriteFile(dst, out, 0o644)
			repl[virt] = dst
		}
	}
	ovData, _ := json.Marshal(map[string]interface{}{"Replace": repl})
	ovPath := filepath.Join(tmp, "overlay.json")
	os.WriteFile(ovPath, ovData, 0o644)
	bin = filepath.Join(tmp, "replay.bin")
	ctx, cancel := context.WithTimeout(context.Background(), 5*time.Minute)
	defer cancel()
	buildArgs := []string{"build", "-overlay", ovPath, "-o", bin}
	if md.race {
		buildArgs = append(buildArgs, "-race")
	}
	buildArgs = append(buildArgs, "./zzvmain")
	build := exec.CommandContext(ctx, "go", buildArgs...)
	build.Dir = repo
	build.Env = append(os.Environ(), nativeEnv...)
	if out, err := build.CombinedOutput(); err != nil {
		return "", tmp, fmt.Errorf("native build failed: %s", out)
	}
	return bin, tmp, nil
}

// runNative runs the binary on one replay file; extra env selects the mode.
func runNative(bin, harness, replayPath string, timeout time.Duration, extra ...string) (string, error, bool) {
	ctx, cancel := context.WithTimeout(context.Background(), timeout)
	defer cancel()
	run := exec.CommandContext(ctx, bin)
	run.Env = append(append(os.Environ(), nativeEnv...), "ZV_REPLAY="+replayPath, "ZV_HARNESS="+harness)
	run.Env = append(run.Env, extra...)
	out, err := run.CombinedOutput()
	return string(out), err, ctx.Err() != nil
}

// nativeBins caches native builds within one check run: one binary per harness dir and shim mode,
// containing every harness entry of that dir.
type nativeBins struct {
	repo, verif string
	names       map[string][]string // harness dir -> entries
	bins        map[string]string
	tmps        []string
}

func newNativeBins(repo, verif string, all []string) *nativeBins {
	nb := &nativeBins{repo: repo, verif: verif, names: map[string][]string{}, bins: map[string]string{}}
	for _, h := range all {
		if hd, _, err := findHarnessDir(verif, h); err == nil {
			nb.names[hd] = append(nb.names[hd], h)
		}
	}
	return nb
}

func (nb *nativeBins) get(hd, rel string, md nativeMode, harness string) (string, error) {
	k := fmt.Sprintf("%s|%v", hd, md)
	if b, ok := nb.bins[k]; ok {
		return b, nil
	}
	names := nb.names[hd]
	if len(names) == 0 {
		names = []string{harness}
	}
	bin, tmp, err := buildNative(nb.repo, nb.verif, hd, rel, names, md)
	if tmp != "" {
		nb.tmps = append(nb.tmps, tmp)
	}
	if err != nil {
		return "", err
	}
	nb.bins[k] = bin
	return bin, nil
}

func (nb *nativeBins) close() {
	for _, t := range nb.tmps {
		os.RemoveAll(t)
	}
}

// ReplayNative compiles the harness natively against the real build of repo and runs it on the
// recorded counterexample. ok reports whether the expected failure reproduced.
func ReplayNative(repo, verif, replayPath string) (bool, string) {
	nb := newNativeBins(repo, verif, nil)
	defer nb.close()
	return nb.replay(replayPath)
}

func (nb *nativeBins) replay(replayPath string) (bool, string) {
	data, err := os.ReadFile(replayPath)
	if err != nil {
		return false, err.Error()
	}
	var doc replayDoc
	if err := json.Unmarshal(data, &doc); err != nil {
		return false, err.Error()
	}
	hd, rel, err := findHarnessDir(nb.verif, doc.Harness)
	if err != nil {
		return false, err.Error()
	}
	bin, err := nb.get(hd, rel, doc.mode(), doc.Harness)
	if err != nil {
		return false, err.Error()
	}
	var txt string
	var rerr error
	timedOut := false
	attempts := 1
	if doc.isRace() {
		attempts = 6 // the detector needs both accesses to execute unordered; free-running, so retry
	}
	if len(doc.MapOrders) > 0 && !doc.isRace() {
		attempts = 60 // the native iteration order of a map cannot be steered: re-run until it occurs
	}
	reproduced := func(txt string) bool {
		w := doc.ID
		return strings.Contains(txt, "ZV: ASSERT-FAIL "+w) ||
			(strings.HasSuffix(w, "/unexpected-panic") && (strings.Contains(txt, "panic:") || strings.Contains(txt, "fatal error:")))
	}
	for a := 0; a < attempts; a++ {
		var extra []string
		if doc.isRace() {
			extra = append(extra, "ZV_LOOP=400", "GORACE=halt_on_error=1")
		}
		if doc.usesSched() {
			extra = append(extra, "ZV_SCHED=dfs", "ZV_TARGET="+doc.ID)
		}
		txt, rerr, timedOut = runNative(bin, doc.Harness, replayPath, 90*time.Second, extra...)
		if doc.isRace() {
			if strings.Contains(txt, "DATA RACE") {
				break
			}
			continue
		}
		if len(doc.MapOrders) == 0 || reproduced(txt) {
			break
		}
	}
	if len(txt) > 4000 {
		txt = txt[:4000]
	}
	want := doc.ID
	switch {
	case doc.isRace():
		if strings.Contains(txt, "DATA RACE") {
			return true, txt
		}
	case strings.Contains(txt, "ZV: ASSERT-FAIL "+want):
		return true, txt
	case strings.HasSuffix(want, "/unexpected-panic") && (strings.Contains(txt, "panic:") || strings.Contains(txt, "fatal error:")):
		return true, txt
	case strings.HasSuffix(want, "/goroutine-panic") && strings.Contains(txt, "panic:"):
		return true, txt
	case strings.HasSuffix(want, "/non-termination") && (timedOut || strings.Contains(txt, "stack overflow") || strings.Contains(txt, "goroutine stack exceeds")):
		return true, txt
	case want == "deadlock" && (strings.Contains(txt, "deadlock") || timedOut):
		return true, txt
	case want == "fatal" && strings.Contains(txt, "fatal error:"):
		return true, txt
	}
	if rerr != nil {
		txt += " (" + rerr.Error() + ")"
	}
	return false, strings.TrimSpace(txt)
}
