package sym

import (
	"context"
	"encoding/json"
	"fmt"
	"os"
	"os/exec"
	"path/filepath"
	"regexp"
	"strings"
	"time"
)

type replayDoc struct {
	Property string      `json:"property"`
	Harness  string      `json:"harness"`
	ID       string      `json:"id"`
	Nondet   []NondetRec `json:"nondet"`
	Fired    []int       `json:"timers_fired"`
}

// usesClock: the counterexample read the symbolic clock, so the native build needs the time shim.
func (d *replayDoc) usesClock() bool {
	for _, n := range d.Nondet {
		if n.Kind == "clock" {
			return true
		}
	}
	return len(d.Fired) > 0
}

// clockFiles are the repo files whose "time" import is redirected to the virtual clock.
var clockFiles = []string{"cache/cache.go", "func.go", "memoize.go"}

var timeImportRe = regexp.MustCompile(`(?m)^(\s*)"time"\s*$`)

// findHarnessDir locates the harness dir that declares the entry function.
func findHarnessDir(verif, harness string) (string, string, error) {
	dirs, err := harnessDirs(verif)
	if err != nil {
		return "", "", err
	}
	re := regexp.MustCompile(`(?m)^func ` + regexp.QuoteMeta(harness) + `\(`)
	for hd, rel := range dirs {
		files, _ := filepath.Glob(filepath.Join(verif, "harness", hd, "*.go"))
		for _, f := range files {
			data, _ := os.ReadFile(f)
			if re.Match(data) {
				return hd, rel, nil
			}
		}
	}
	return "", "", fmt.Errorf("harness %s not found", harness)
}

// ReplayNative compiles the harness natively against the real build of repo (overlay only, nothing
// is written under repo) and runs it on the recorded counterexample. ok reports whether the
// expected failure reproduced.
func ReplayNative(repo, verif, replayPath string) (bool, string) {
	data, err := os.ReadFile(replayPath)
	if err != nil {
		return false, err.Error()
	}
	var doc replayDoc
	if err := json.Unmarshal(data, &doc); err != nil {
		return false, err.Error()
	}
	hd, rel, err := findHarnessDir(verif, doc.Harness)
	if err != nil {
		return false, err.Error()
	}
	tmp, err := os.MkdirTemp("", "gosym-replay-")
	if err != nil {
		return false, err.Error()
	}
	defer os.RemoveAll(tmp)
	imp := RepoMod
	if rel != "." {
		imp = RepoMod + "/" + rel
	}
	mainSrc := fmt.Sprintf(`package main

import (
	"fmt"
	h %q
)

func main() {
	h.%s()
	fmt.Println("ZV: END")
}
`, imp, doc.Harness)
	mainPath := filepath.Join(tmp, "main.go")
	os.WriteFile(mainPath, []byte(mainSrc), 0o644)
	repl := map[string]string{filepath.Join(repo, "zzvmain", "main.go"): mainPath}
	for _, d := range []string{hd, "zzvrt"} {
		r := d
		if d == hd {
			r = rel
		}
		files, _ := filepath.Glob(filepath.Join(verif, "harness", d, "*.go"))
		for _, f := range files {
			repl[filepath.Join(repo, r, filepath.Base(f))] = f
		}
	}
	if doc.usesClock() {
		files, _ := filepath.Glob(filepath.Join(verif, "harness", "zzvtime", "*.go"))
		for _, f := range files {
			repl[filepath.Join(repo, "zzvtime", filepath.Base(f))] = f
		}
		for i, rel := range clockFiles {
			src, err := os.ReadFile(filepath.Join(repo, rel))
			if err != nil {
				continue
			}
			out := timeImportRe.ReplaceAll(src, []byte(`${1}time "`+RepoMod+`/zzvtime"`))
			dst := filepath.Join(tmp, fmt.Sprintf("clock%d.go", i))
			os.WriteFile(dst, out, 0o644)
			repl[filepath.Join(repo, rel)] = dst
		}
	}
	ovData, _ := json.Marshal(map[string]interface{}{"Replace": repl})
	ovPath := filepath.Join(tmp, "overlay.json")
	os.WriteFile(ovPath, ovData, 0o644)
	bin := filepath.Join(tmp, "replay.bin")
	env := append(os.Environ(), "GOFLAGS=-mod=mod", "GOPROXY=off", "GOSUMDB=off", "GOTOOLCHAIN=local", "GOWORK=off")
	ctx, cancel := context.WithTimeout(context.Background(), 5*time.Minute)
	defer cancel()
	build := exec.CommandContext(ctx, "go", "build", "-overlay", ovPath, "-o", bin, "./zzvmain")
	build.Dir = repo
	build.Env = env
	if out, err := build.CombinedOutput(); err != nil {
		return false, "native build failed: " + string(out)
	}
	ctx2, cancel2 := context.WithTimeout(context.Background(), 60*time.Second)
	defer cancel2()
	run := exec.CommandContext(ctx2, bin)
	run.Env = append(env, "ZV_REPLAY="+replayPath)
	out, rerr := run.CombinedOutput()
	txt := string(out)
	if len(txt) > 4000 {
		txt = txt[:4000]
	}
	want := doc.ID
	switch {
	case strings.Contains(txt, "ZV: ASSERT-FAIL "+want):
		return true, txt
	case strings.HasSuffix(want, "/unexpected-panic") && (strings.Contains(txt, "panic:") || strings.Contains(txt, "fatal error:")):
		return true, txt
	case strings.HasSuffix(want, "/goroutine-panic") && strings.Contains(txt, "panic:"):
		return true, txt
	case want == "deadlock" && (strings.Contains(txt, "deadlock") || ctx2.Err() != nil):
		return true, txt
	case want == "fatal" && strings.Contains(txt, "fatal error:"):
		return true, txt
	}
	if rerr != nil {
		txt += " (" + rerr.Error() + ")"
	}
	return false, strings.TrimSpace(txt)
}
