package sym

import (
	"go/token"
	"go/types"

	"golang.org/x/tools/go/ssa"
)

// Symbolic clock and timers. time.Time is represented by its real struct layout
// {wall uint64, ext int64, loc *Location} with wall=0 and ext = nanoseconds since the epoch.

type timer struct {
	id       int
	deadline *Term
	period   *Term
	fn       Value    // AfterFunc callback
	ch       *ChanObj // After / Ticker channel
	active   bool
	obj      *Object
	fired    int
}

const (
	clockLo = int64(1) << 60
	clockHi = int64(1) << 61
)

func (r *Run) timeValue(ns *Term) Value {
	return &StructV{F: []Value{r.TB.Const(SBV64, 0), ns, Ptr{}}}
}

func timeNS(v Value) *Term { return v.(*StructV).F[1].(*Term) }

// nowTerm returns a fresh instant >= every earlier one.
func (r *Run) nowTerm() *Term {
	tb := r.TB
	r.clockN++
	t := r.fresh("clock", SBV64)
	if r.clock == nil {
		r.assume(tb.Bin(OSle, tb.Int(64, clockLo), t), true)
	} else {
		r.assume(tb.Bin(OSle, r.clock, t), true)
	}
	r.assume(tb.Bin(OSle, t, tb.Int(64, clockHi)), true)
	r.clock = t
	return t
}

func (r *Run) now() Value { return r.timeValue(r.nowTerm()) }

func (r *Run) newTimer(typ types.Type, d *Term, fn Value, withChan bool, period *Term) (*timer, Ptr) {
	tb := r.TB
	now := r.nowTerm()
	tm := &timer{id: len(r.timers), deadline: tb.Bin(OAdd, now, d), fn: fn, active: true, period: period}
	o := r.newObject(r.zero(typ), nil)
	o.Typ = typ
	if withChan {
		r.serial++
		tm.ch = &ChanObj{ID: r.serial, Cap: 1, ET: r.timeType()}
		// field 0 is C
		sv := o.V.(*StructV)
		f := append([]Value(nil), sv.F...)
		f[0] = tm.ch
		o.V = &StructV{F: f}
	}
	tm.obj = o
	r.timers = append(r.timers, tm)
	return tm, Ptr{Obj: o}
}

func (r *Run) timeType() types.Type {
	p := r.E.Pkgs["time"]
	if p == nil {
		r.unsupported("time package not loaded")
	}
	return p.Type("Time").Type()
}

func (r *Run) timerOf(p Ptr) *timer {
	for _, t := range r.timers {
		if t.obj == p.Obj {
			return t
		}
	}
	r.unsupported("unknown timer object")
	return nil
}

// fire runs timer tm at a fresh instant T >= deadline.
func (th *Thread) fire(caller *frame, pos token.Pos, tm *timer) {
	r := th.R
	tb := r.TB
	T := r.nowTerm()
	r.assume(tb.Bin(OSle, tm.deadline, T), true)
	tm.fired++
	if tm.period != nil {
		tm.deadline = tb.Bin(OAdd, tm.deadline, tm.period)
	} else {
		tm.active = false
	}
	r.firedLog = append(r.firedLog, tm.id)
	if tm.ch != nil {
		if len(tm.ch.Buf) < tm.ch.Cap {
			tm.ch.Buf = append(tm.ch.Buf, r.timeValue(T))
		}
		return
	}
	// AfterFunc: the callback runs in its own goroutine in Go. We run it as a thread to completion
	// (sequential mode) or as a free thread (Par mode).
	fn := tm.fn
	if r.parDepth > 0 {
		r.spawn(func(t *Thread) { t.call(nil, pos, fn, nil) }, true)
		return
	}
	th.call(caller, pos, fn, nil)
}

// advanceTimers is the environment step: any active timer may fire (all=false), or every active
// timer fires (all=true, quiescence), repeatedly for timers created by callbacks (bounded).
func (th *Thread) advanceTimers(caller *frame, pos token.Pos, all bool) {
	r := th.R
	for round := 0; round < 4; round++ {
		firedAny := false
		n := len(r.timers)
		for i := 0; i < n; i++ {
			tm := r.timers[i]
			if !tm.active || (tm.period != nil && tm.fired >= 2) {
				continue
			}
			fireIt := all
			if !all {
				c := r.Choice(2)
				r.choices = append(r.choices, c) // replayed natively by zzvtime's Advance hook
				fireIt = c == 1
			}
			if fireIt {
				th.fire(caller, pos, tm)
				firedAny = true
			}
		}
		if !all || !firedAny {
			return
		}
	}
}

func addTimeIntrinsics() {
	I := intrinsics
	I["time.Now"] = func(th *Thread, _ *frame, _ token.Pos, _ *ssa.Function, a []Value) Value { return th.R.now() }
	I["time.Since"] = func(th *Thread, _ *frame, _ token.Pos, _ *ssa.Function, a []Value) Value {
		return th.R.TB.Bin(OSub, th.R.nowTerm(), timeNS(a[0]))
	}
	I["time.Until"] = func(th *Thread, _ *frame, _ token.Pos, _ *ssa.Function, a []Value) Value {
		return th.R.TB.Bin(OSub, timeNS(a[0]), th.R.nowTerm())
	}
	I["(time.Time).Add"] = func(th *Thread, _ *frame, _ token.Pos, _ *ssa.Function, a []Value) Value {
		return th.R.timeValue(th.R.TB.Bin(OAdd, timeNS(a[0]), term(a[1])))
	}
	I["(time.Time).Sub"] = func(th *Thread, _ *frame, _ token.Pos, _ *ssa.Function, a []Value) Value {
		return th.R.TB.Bin(OSub, timeNS(a[0]), timeNS(a[1]))
	}
	I["(time.Time).UnixNano"] = func(th *Thread, _ *frame, _ token.Pos, _ *ssa.Function, a []Value) Value { return timeNS(a[0]) }
	I["(time.Time).After"] = func(th *Thread, _ *frame, _ token.Pos, _ *ssa.Function, a []Value) Value {
		return th.R.TB.Bin(OSlt, timeNS(a[1]), timeNS(a[0]))
	}
	I["(time.Time).Before"] = func(th *Thread, _ *frame, _ token.Pos, _ *ssa.Function, a []Value) Value {
		return th.R.TB.Bin(OSlt, timeNS(a[0]), timeNS(a[1]))
	}
	I["(time.Time).IsZero"] = func(th *Thread, _ *frame, _ token.Pos, _ *ssa.Function, a []Value) Value {
		return th.R.TB.Eq(timeNS(a[0]), th.R.TB.Int(64, 0))
	}
	I["time.AfterFunc"] = func(th *Thread, _ *frame, _ token.Pos, fn *ssa.Function, a []Value) Value {
		typ := fn.Signature.Results().At(0).Type().(*types.Pointer).Elem()
		_, p := th.R.newTimer(typ, term(a[0]), a[1], false, nil)
		return p
	}
	I["time.NewTimer"] = func(th *Thread, _ *frame, _ token.Pos, fn *ssa.Function, a []Value) Value {
		typ := fn.Signature.Results().At(0).Type().(*types.Pointer).Elem()
		_, p := th.R.newTimer(typ, term(a[0]), nil, true, nil)
		return p
	}
	I["time.After"] = func(th *Thread, _ *frame, _ token.Pos, fn *ssa.Function, a []Value) Value {
		tp := th.R.E.Pkgs["time"].Type("Timer").Type()
		tm, _ := th.R.newTimer(tp, term(a[0]), nil, true, nil)
		return tm.ch
	}
	I["time.NewTicker"] = func(th *Thread, _ *frame, pos token.Pos, fn *ssa.Function, a []Value) Value {
		typ := fn.Signature.Results().At(0).Type().(*types.Pointer).Elem()
		d := term(a[0])
		if th.R.Branch(th.R.TB.Bin(OSle, d, th.R.TB.Int(64, 0))) {
			th.targetPanic("non-positive interval for NewTicker", pos)
		}
		_, p := th.R.newTimer(typ, d, nil, true, d)
		return p
	}
	stop := func(th *Thread, _ *frame, _ token.Pos, _ *ssa.Function, a []Value) Value {
		p := a[0].(Ptr)
		if p.IsNil() {
			th.targetPanic("Stop on nil timer", token.NoPos)
		}
		tm := th.R.timerOf(p)
		was := tm.active
		tm.active = false
		return th.R.TB.Bool(was)
	}
	I["(*time.Timer).Stop"] = stop
	// Reset re-arms the timer (its function or channel is kept) to expire d after a fresh instant.
	I["(*time.Timer).Reset"] = func(th *Thread, _ *frame, _ token.Pos, _ *ssa.Function, a []Value) Value {
		p := a[0].(Ptr)
		if p.IsNil() {
			th.targetPanic("Reset on nil timer", token.NoPos)
		}
		tm := th.R.timerOf(p)
		was := tm.active
		tm.deadline = th.R.TB.Bin(OAdd, th.R.nowTerm(), term(a[1]))
		tm.active = true
		return th.R.TB.Bool(was)
	}
	I["(*time.Ticker).Stop"] = func(th *Thread, c *frame, p token.Pos, f *ssa.Function, a []Value) Value {
		stop(th, c, p, f, a)
		return nil
	}
	I["time.Sleep"] = func(th *Thread, _ *frame, _ token.Pos, _ *ssa.Function, a []Value) Value {
		r := th.R
		before := r.nowTerm()
		after := r.nowTerm()
		r.assume(r.TB.Bin(OSle, r.TB.Bin(OAdd, before, term(a[0])), after), true)
		return nil
	}
}

// recvTimerChan: a receive on a timer channel that is empty forces the environment to fire it
// (the receiver would otherwise wait for it in real time). Returns true if it handled the receive.
func (th *Thread) timerForChan(c *ChanObj) *timer {
	for _, t := range th.R.timers {
		if t.ch == c && t.active {
			return t
		}
	}
	return nil
}
