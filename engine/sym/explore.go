package sym

import (
	"fmt"
	"go/token"
	"math/rand"
	"os"
	"runtime/debug"
	"sort"
	"strings"
	"sync"
	"sync/atomic"
	"time"

	"golang.org/x/tools/go/ssa"
)

// Violation is a failed obligation with the data needed to replay it.
type Violation struct {
	Harness   string            `json:"harness"`
	ID        string            `json:"id"`
	Msg       string            `json:"msg"`
	Pos       string            `json:"pos"`
	Known     bool              `json:"known_region"`
	Nondet    []NondetRec       `json:"nondet"`
	Choices   []int             `json:"choices"`
	UF        map[string][][]string `json:"uf,omitempty"`
	MapOrders []int             `json:"map_orders,omitempty"`
	Sched     []int             `json:"schedule,omitempty"`
	Fired     []int             `json:"timers_fired,omitempty"`
	Trace     []int32           `json:"decisions"`
	PC        string            `json:"path_condition,omitempty"`
	Expect    *WitnessExpect    `json:"expect,omitempty"`
}

// WitnessExpect: what the engine saw on a completed path, to be matched by the native run of the
// same harness on the same inputs (translator validation).
type WitnessExpect struct {
	Asserts int `json:"asserts"`
	Nondet  int `json:"nondet"`
	Choices int `json:"choices"`
}

// HarnessRun aggregates the exploration of one harness entry.
type HarnessRun struct {
	E    *Engine
	Name string
	Fn   *ssa.Function

	mu         sync.Mutex
	queue      []work
	active     int
	cond       *sync.Cond
	Paths      int64
	NonTrivial int64 // completed paths on which at least one obligation was checked
	Branches   int64
	Ends       map[string]int
	EndMsgs    map[string]string
	Obligs     map[string]*ObligStat
	Covers     map[string]bool
	Violations []*Violation
	vioSeen    map[string]int
	Funcs      map[string]int
	MaxPaths   int64
	Budget     bool
	Samples    []string
	Access     map[string]*AccessClass
	stop       int32

	WitnessMax int
	Witnesses  []*Violation
	doneSeen   int64
	rng        *rand.Rand
}

type ObligStat struct {
	Checked    int
	Discharged int
	Violated   int
	KnownHit   int
	Unknown    int
}

func (h *HarnessRun) enqueue(w work) {
	h.mu.Lock()
	h.queue = append(h.queue, w)
	h.mu.Unlock()
	h.cond.Signal()
}

func (h *HarnessRun) addBranches(n int64) { atomic.AddInt64(&h.Branches, n) }

func (h *HarnessRun) noteFunc(fn *ssa.Function) {
	h.mu.Lock()
	h.Funcs[fn.String()]++
	h.mu.Unlock()
}

func (h *HarnessRun) oblig(id string) *ObligStat {
	o := h.Obligs[id]
	if o == nil {
		o = &ObligStat{}
		h.Obligs[id] = o
	}
	return o
}

// violation records a violation found on the current path.
func (r *Run) violation(id, msg string, pos token.Pos) {
	r.recordViolation(id, msg, pos, false, r.model)
}

func (r *Run) recordViolation(id, msg string, pos token.Pos, known bool, m *Model) {
	r.hadViolation = true
	h := r.H
	h.mu.Lock()
	defer h.mu.Unlock()
	key := id
	if known {
		key = "known:" + id
	}
	h.vioSeen[key]++
	if h.vioSeen[key] > 3 {
		return
	}
	v := &Violation{Harness: h.Name, ID: id, Msg: msg, Pos: r.E.Pos(pos), Known: known,
		Choices: append([]int(nil), r.choices...), MapOrders: append([]int(nil), r.mapOrders...),
		Sched: append([]int(nil), r.sched...), Fired: append([]int(nil), r.firedLog...),
		Trace: append([]int32(nil), r.trace...)}
	if m == nil {
		// need a model of the current PC
		_, m = r.check()
	}
	cache := map[int]uint64{}
	for i, t := range r.nondet {
		val := uint64(0)
		if m != nil {
			if x, ok := m.Eval(t, cache); ok {
				val = x
			}
		}
		v.Nondet = append(v.Nondet, NondetRec{Kind: r.nondetK[i], Name: t.Name, Val: fmt.Sprintf("%d", val)})
	}
	if m != nil && len(m.Apps) > 0 {
		v.UF = map[string][][]string{}
		keys := make([]string, 0, len(m.Apps))
		for k := range m.Apps {
			keys = append(keys, k)
		}
		sort.Strings(keys)
		for _, k := range keys {
			parts := strings.Split(k, ",")
			row := append([]string{}, parts[1:]...)
			row = append(row, fmt.Sprintf("%x", m.Apps[k]))
			v.UF[parts[0]] = append(v.UF[parts[0]], row)
		}
	}
	v.PC = r.pcString()
	if len(v.PC) > 2000 {
		v.PC = v.PC[:2000] + "…"
	}
	h.Violations = append(h.Violations, v)
}

// assert checks cond on the current path. kf (may be nil) is the known-finding region.
func (r *Run) assert(kf, cond *Term, id string, pos token.Pos) {
	h := r.H
	tb := r.TB
	r.nAsserts++
	h.mu.Lock()
	st := h.oblig(id)
	st.Checked++
	h.mu.Unlock()
	if v, ok := r.known(cond); ok && v {
		h.mu.Lock()
		st.Discharged++
		h.mu.Unlock()
		return
	}
	ncond := tb.Not(cond)
	// violation outside the known region?
	var out *Term = ncond
	if kf != nil {
		out = tb.And(tb.Not(kf), ncond)
	}
	res, m := r.check(out)
	switch res {
	case Unknown:
		h.mu.Lock()
		st.Unknown++
		h.mu.Unlock()
		r.end("unknown", "solver unknown on assertion %s: %s", id, r.S.LastErr)
	case Sat:
		h.mu.Lock()
		st.Violated++
		h.mu.Unlock()
		r.recordViolationWith(id, "assertion failed", pos, false, m, out)
	}
	knownHit := false
	if kf != nil {
		res2, m2 := r.check(tb.And(kf, ncond))
		switch res2 {
		case Unknown:
			r.end("unknown", "solver unknown on known-region query %s", id)
		case Sat:
			knownHit = true
			h.mu.Lock()
			st.KnownHit++
			h.mu.Unlock()
			r.recordViolationWith(id, "assertion failed inside known-finding region", pos, true, m2, tb.And(kf, ncond))
		}
	}
	if res == Unsat && !knownHit {
		h.mu.Lock()
		st.Discharged++
		h.mu.Unlock()
		// cond is implied by the PC: remember it
		r.setAtom(cond, true)
		return
	}
	// continue only with states satisfying cond
	r.Assume(cond)
}

func (r *Run) recordViolationWith(id, msg string, pos token.Pos, known bool, m *Model, extra *Term) {
	// temporarily extend the PC so that the recorded path condition includes the failing clause
	saved := r.PC
	r.PC = append(append([]*Term(nil), r.PC...), extra)
	r.recordViolation(id, msg, pos, known, m)
	r.PC = saved
}

// ---- path execution ----

func (h *HarnessRun) runPath(s *Solver, w work) {
	e := h.E
	r := &Run{E: e, H: h, TB: NewTable(), S: s, atoms: map[int]bool{}, prefix: w.prefix,
		globals: map[*ssa.Global]*Object{}, locks: map[string]*lockState{}, wgs: map[string]*wgState{},
		conds: map[string]*condState{}, builders: map[string][]*Term{}, carrier: map[string][]*Term{},
		inited: map[*ssa.Package]bool{}}
	r.setModel(w.model)
	main := r.spawn(nil, false)
	main.started = true
	r.cur = main
	endKind, endMsg := "done", ""
	func() {
		defer func() {
			rec := recover()
			if rec == nil {
				return
			}
			switch p := rec.(type) {
			case pathEnd:
				endKind, endMsg = p.Kind, p.Msg
				if p.Kind == "dead" && r.deadReason != nil {
					endKind, endMsg = r.deadReason.Kind, r.deadReason.Msg
				}
			case *goPanic:
				endKind, endMsg = "panic", p.Msg+" at "+e.Pos(p.Pos)
				r.violation(h.Name+"/unexpected-panic", "uncaught panic: "+p.Msg+" at "+e.Pos(p.Pos), p.Pos)
			default:
				endKind = "engine-bug"
				endMsg = fmt.Sprintf("%v\n%s", rec, debug.Stack())
			}
		}()
		r.initPackages(main, h.Fn.Pkg)
		main.call(nil, h.Fn.Pos(), &FuncV{Fn: h.Fn}, nil)
		r.quiesce(main)
		r.cover(h.Name + "/end")
	}()
	if endKind == "goroutine-panic" && r.uncaught != nil {
		r.violation(h.Name+"/goroutine-panic", "uncaught panic in goroutine: "+endMsg, r.uncaught.Pos)
	}
	if endKind == "done" && h.WitnessMax > 0 && !r.hadViolation {
		r.maybeWitness()
	}
	// terminate remaining host goroutines of this path
	r.dead = true
	for _, t := range r.threads[1:] {
		if t.started && !t.done {
			select {
			case t.resume <- struct{}{}:
			default:
			}
		}
	}
	r.wg.Wait()
	h.mu.Lock()
	h.Paths++
	if endKind == "done" && r.nAsserts > 0 {
		h.NonTrivial++
	}
	h.Ends[endKind]++
	if endMsg != "" && h.EndMsgs[endKind] == "" {
		h.EndMsgs[endKind] = endMsg
	}
	for c := range r.covers {
		h.Covers[c] = true
	}
	if endKind == "done" && len(h.Samples) < 3 {
		pc := r.pcString()
		if len(pc) > 600 {
			pc = pc[:600] + "…"
		}
		h.Samples = append(h.Samples, fmt.Sprintf("choices=%v pc=%s", r.choices, pc))
	}
	r.mergeAccess()
	h.mu.Unlock()
}

// maybeWitness keeps a uniform sample (reservoir) of completed paths together with a model of their
// path condition: concrete inputs on which the native build must behave as the engine did.
func (r *Run) maybeWitness() {
	h := r.H
	h.mu.Lock()
	h.doneSeen++
	slot := -1
	if len(h.Witnesses) < h.WitnessMax {
		slot = len(h.Witnesses)
		h.Witnesses = append(h.Witnesses, nil)
	} else if j := h.rng.Int63n(h.doneSeen); j < int64(h.WitnessMax) {
		slot = int(j)
	}
	h.mu.Unlock()
	if slot < 0 {
		return
	}
	res, m := r.check()
	if res != Sat || m == nil {
		return
	}
	w := &Violation{Harness: h.Name, ID: "witness", Choices: append([]int(nil), r.choices...),
		MapOrders: append([]int(nil), r.mapOrders...), Sched: append([]int(nil), r.sched...),
		Fired: append([]int(nil), r.firedLog...),
		Expect: &WitnessExpect{Asserts: r.nAsserts, Nondet: len(r.nondet), Choices: len(r.choices)}}
	cache := map[int]uint64{}
	for i, t := range r.nondet {
		val, _ := m.Eval(t, cache)
		w.Nondet = append(w.Nondet, NondetRec{Kind: r.nondetK[i], Name: t.Name, Val: fmt.Sprintf("%d", val)})
	}
	if len(m.Apps) > 0 {
		w.UF = map[string][][]string{}
		keys := make([]string, 0, len(m.Apps))
		for k := range m.Apps {
			keys = append(keys, k)
		}
		sort.Strings(keys)
		for _, k := range keys {
			parts := strings.Split(k, ",")
			row := append([]string{}, parts[1:]...)
			row = append(row, fmt.Sprintf("%x", m.Apps[k]))
			w.UF[parts[0]] = append(w.UF[parts[0]], row)
		}
	}
	h.mu.Lock()
	h.Witnesses[slot] = w
	h.mu.Unlock()
}

// Explore runs all paths of the harness with the given number of workers.
func (h *HarnessRun) Explore(workers int, stats *SolverStats, logf *os.File) {
	h.ExploreWith(workers, stats, logf, nil)
}

func (h *HarnessRun) ExploreWith(workers int, stats *SolverStats, logf *os.File, cross *crossSampler) {
	h.cond = sync.NewCond(&h.mu)
	h.queue = []work{{}}
	var wg sync.WaitGroup
	for i := 0; i < workers; i++ {
		wg.Add(1)
		go func() {
			defer wg.Done()
			s := NewSolver(stats)
			s.Cross = cross
			if logf != nil {
				s.Log = logf
			}
			defer s.Close()
			for {
				h.mu.Lock()
				for len(h.queue) == 0 && h.active > 0 {
					h.cond.Wait()
				}
				if len(h.queue) == 0 || atomic.LoadInt32(&h.stop) != 0 {
					h.mu.Unlock()
					h.cond.Broadcast()
					return
				}
				w := h.queue[len(h.queue)-1]
				h.queue = h.queue[:len(h.queue)-1]
				h.active++
				over := h.MaxPaths > 0 && h.Paths >= h.MaxPaths
				h.mu.Unlock()
				if over {
					h.mu.Lock()
					h.Budget = true
					h.queue = nil
					h.active--
					atomic.StoreInt32(&h.stop, 1)
					h.mu.Unlock()
					h.cond.Broadcast()
					return
				}
				// each path gets its own wait group for helper goroutines
				ph := h
				ph.runPathIsolated(s, w)
				h.mu.Lock()
				h.active--
				h.mu.Unlock()
				h.cond.Broadcast()
			}
		}()
	}
	wg.Wait()
}

// runPathIsolated exists so that each path waits only for its own helper goroutines.
func (h *HarnessRun) runPathIsolated(s *Solver, w work) {
	h.runPath(s, w)
}

func NewHarnessRun(e *Engine, name string, fn *ssa.Function) *HarnessRun {
	return &HarnessRun{E: e, Name: name, Fn: fn, Ends: map[string]int{}, EndMsgs: map[string]string{},
		Obligs: map[string]*ObligStat{}, Covers: map[string]bool{}, vioSeen: map[string]int{},
		Funcs: map[string]int{}, Access: map[string]*AccessClass{}, MaxPaths: 400000}
}

var _ = time.Now
