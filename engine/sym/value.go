package sym

import (
	"fmt"
	"go/types"
	"strings"

	"golang.org/x/tools/go/ssa"
)

// Value is a symbolic-execution value. Concrete kinds:
//
//	*Term       scalar (bool, intN, uintN, float64)
//	Ptr         pointer (concrete object + path)
//	*StructV    struct by value (immutable by convention)
//	*ArrayV     array by value (immutable by convention)
//	SliceV      slice header
//	StringV     string: concrete length, symbolic bytes
//	IfaceV      interface
//	*FuncV      function value / closure (nil = nil func)
//	*MapObj     map (nil = nil map)
//	*ChanObj    channel (nil = nil chan)
//	TupleV      multiple results
//	*Iter       range iterator
type Value interface{}

type Object struct {
	ID     int
	Typ    types.Type // element type stored
	V      Value
	Born   int // allocation serial
	Epoch  int // footprint epoch at allocation
	Shared bool
	Label  string
}

type Ptr struct {
	Obj  *Object
	Path []int
	// Special non-memory pointees
	Global *ssa.Global
}

func (p Ptr) IsNil() bool { return p.Obj == nil }

func (p Ptr) Key() string {
	if p.Obj == nil {
		return "nil"
	}
	var sb strings.Builder
	fmt.Fprintf(&sb, "o%d", p.Obj.ID)
	for _, i := range p.Path {
		fmt.Fprintf(&sb, ".%d", i)
	}
	return sb.String()
}

func (p Ptr) Sub(i int) Ptr {
	np := make([]int, len(p.Path)+1)
	copy(np, p.Path)
	np[len(p.Path)] = i
	return Ptr{Obj: p.Obj, Path: np}
}

func ptrEq(a, b Ptr) bool {
	if a.Obj != b.Obj || len(a.Path) != len(b.Path) {
		// &s.f0 == &s does not arise in well-typed comparisons of the same pointer type, except
		// for a struct and its first field of identical type, which Go forbids.
		return false
	}
	for i := range a.Path {
		if a.Path[i] != b.Path[i] {
			return false
		}
	}
	return true
}

type StructV struct{ F []Value }
type ArrayV struct{ E []Value }

type SliceV struct {
	Arr           *Object // holds the backing *ArrayV (at Base); nil for nil slice
	Off, Len, Cap int
	Base          []int // path of the backing array inside Arr (nil: the object IS the array); non-nil
	// for a slice of an array that is a field/element of another object, e.g. n.children[a:b]
}

// elemPtr addresses element i of the slice.
func (s SliceV) elemPtr(i int) Ptr {
	path := make([]int, 0, len(s.Base)+1)
	path = append(path, s.Base...)
	return Ptr{Obj: s.Arr, Path: append(path, s.Off+i)}
}

func (s SliceV) sameBacking(t SliceV) bool {
	if s.Arr == nil || s.Arr != t.Arr || len(s.Base) != len(t.Base) {
		return false
	}
	for i := range s.Base {
		if s.Base[i] != t.Base[i] {
			return false
		}
	}
	return true
}

type StringV struct {
	B []*Term
	// Opaque: a string whose content is not modelled (message text, formatted numbers).
	Opaque *OpaqueStr
}

type OpaqueStr struct {
	Kind string // "msg" | "itoa"
	Num  *Term  // itoa: the number (64-bit signed)
}

type IfaceV struct {
	T types.Type // nil = nil interface
	V Value
}

type FuncV struct {
	Fn   *ssa.Function
	Env  []Value
	Bltn *ssa.Builtin
	// Native engine function (used for stubs passed as values, e.g. cond.Broadcast method value).
	Native func(th *Thread, args []Value) Value
	Name   string
}

type mapEntry struct {
	K, V    Value
	Deleted bool
	Serial  int
}

type MapObj struct {
	ID      int
	KT, VT  types.Type
	Entries []*mapEntry
	Epoch   int
	Shared  bool
	label   string
}

func (m *MapObj) Live() int {
	n := 0
	for _, e := range m.Entries {
		if !e.Deleted {
			n++
		}
	}
	return n
}

type ChanObj struct {
	ID     int
	Cap    int
	Buf    []Value
	Closed bool
	ET     types.Type
	Shared bool       // reachable from the instance declared with vrt.Share
	sendq  []*sendReq // blocked senders (unbuffered rendezvous)
}

type TupleV []Value

type Iter struct {
	Str   *StringV
	Pos   int
	Map   *MapObj
	Seen  map[*mapEntry]bool
	Start int // serial bound: entries inserted after range start may or may not be seen; we do not visit them
	rot   *mapEntry
	last  *mapEntry
}

// opaque engine types used as dynamic types of special interface values
type engineType struct{ name string }

func (e *engineType) Underlying() types.Type { return e }
func (e *engineType) String() string         { return e.name }

var (
	opaqueErrorType = &engineType{"engine.opaqueError"}
	reflectTypeType = &engineType{"engine.reflectType"}
)

// opaqueErr is the payload of an opaque error value.
type opaqueErr struct {
	id  int
	msg string
}

func describe(v Value) string {
	switch x := v.(type) {
	case nil:
		return "<nil>"
	case *Term:
		if x.IsConst() {
			if x.Sort == SBool {
				return fmt.Sprint(x.Val == 1)
			}
			if x.Sort == SF64 {
				return fmt.Sprint(x.F64())
			}
			return fmt.Sprint(x.SInt())
		}
		return "sym"
	case Ptr:
		return "&" + x.Key()
	case *StructV:
		var ss []string
		for _, f := range x.F {
			ss = append(ss, describe(f))
		}
		return "{" + strings.Join(ss, " ") + "}"
	case *ArrayV:
		var ss []string
		for _, f := range x.E {
			ss = append(ss, describe(f))
		}
		return "[" + strings.Join(ss, " ") + "]"
	case SliceV:
		if x.Arr == nil {
			return "[]nil"
		}
		return fmt.Sprintf("slice(o%d%v,%d,%d,%d)", x.Arr.ID, x.Base, x.Off, x.Len, x.Cap)
	case StringV:
		if x.Opaque != nil {
			return "str<" + x.Opaque.Kind + ">"
		}
		var sb strings.Builder
		for _, b := range x.B {
			if b.IsConst() {
				sb.WriteByte(byte(b.Val))
			} else {
				sb.WriteByte('?')
			}
		}
		return fmt.Sprintf("%q", sb.String())
	case IfaceV:
		if x.T == nil {
			return "iface(nil)"
		}
		return "iface(" + x.T.String() + ")"
	case *FuncV:
		if x == nil {
			return "func(nil)"
		}
		return "func"
	case TupleV:
		var ss []string
		for _, f := range x {
			ss = append(ss, describe(f))
		}
		return "(" + strings.Join(ss, ", ") + ")"
	}
	return fmt.Sprintf("%T", v)
}
