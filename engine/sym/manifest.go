package sym

import (
	"encoding/json"
	"fmt"
	"sort"
)

// NotApplicable lists properties that are not claimed, with the reason.
var NotApplicable = map[string]string{}

func init() {
	for i := 1; i <= 20; i++ {
		id := fmt.Sprintf("C%02d", i)
		NotApplicable[id] = "check not built yet in this revision (harnesses for this property are still being written; see DESIGN.md §8 build order)"
	}
}

// Manifest renders MANIFEST.json from the property registry.
func Manifest() []byte {
	var ids []string
	for id := range Properties {
		ids = append(ids, id)
	}
	sort.Strings(ids)
	var checks []map[string]interface{}
	var served []string
	for _, id := range ids {
		p := Properties[id]
		served = append(served, id)
		checks = append(checks, map[string]interface{}{
			"property_id":         id,
			"quick_cmd":           "/verif/bin/gosym check --property " + id + " --tier quick",
			"thorough_cmd":        "/verif/bin/gosym check --property " + id + " --tier thorough",
			"evidence_file":       "/verif/evidence/" + id + ".json",
			"replay_cmd_template": "/verif/bin/gosym replay {path}",
			"engine":              "gosym",
			"level_claimed": map[string]interface{}{
				"category":   "model_checking",
				"text":       p.LevelText,
				"design_ref": p.DesignRef,
			},
			"level_note": p.LevelNote,
			"technique":  p.Technique,
		})
	}
	na := []map[string]string{}
	var naIDs []string
	for id := range NotApplicable {
		if Properties[id] == nil {
			naIDs = append(naIDs, id)
		}
	}
	sort.Strings(naIDs)
	for _, id := range naIDs {
		na = append(na, map[string]string{"property_id": id, "reason": NotApplicable[id]})
	}
	doc := map[string]interface{}{
		"version":   1,
		"setup_cmd": "cd /verif/engine && GOFLAGS=-mod=mod GOPROXY=off GOSUMDB=off GOTOOLCHAIN=local GOWORK=off go build -o /verif/bin/gosym ./cmd/gosym",
		"hooks": map[string]interface{}{
			"guard":            "verif-overlay (no source guard: harnesses and the zzvrt shim are injected by go/packages and `go build -overlay`; nothing is added to /repo)",
			"enable":           "gosym loads /repo with Overlay = /verif/harness/<pkg>/zv_*.go + /verif/harness/zzvrt/vrt.go; native replays use `go build -overlay`",
			"baseline_off_cmd": "cd /repo && GOFLAGS=-mod=mod GOPROXY=off GOSUMDB=off go test -vet=off -count=1 ./...",
			"source_commits":   []string{},
			"add_only":         true,
		},
		"engines": []map[string]interface{}{{
			"name":              "gosym",
			"path":              "/verif/engine",
			"serves_properties": served,
			"kind_free_text":    "bounded symbolic executor for Go written for this task: go/packages+go/ssa (x/tools v0.29.0, generics instantiated) -> forking symbolic interpreter (concrete heap topology, symbolic scalars as SMT bit-vectors/floats, uninterpreted comparators/predicates, symbolic clock, exhaustive scheduler at synchronisation granularity) -> self-contained SMT-LIB2 queries decided by z3 over a pipe; counterexample models are replayed natively against the real build before being reported",
		}},
		"checks":         checks,
		"not_applicable": na,
		"notes":          "Exit codes of every check: 0 = every obligation discharged (unsat) on every feasible path within the registered bounds, known findings printed as KNOWN-FINDING lines; 1 = VIOLATION line(s), each replayed natively; 2 = inconclusive (the edited tree leaves what the encoder can decide: type error, unsupported construct, solver unknown, bound exceeded) — never on the unchanged tree. Bounds, functions encoded, query counts and solver time are in each evidence file.",
	}
	out, _ := json.MarshalIndent(doc, "", " ")
	return append(out, '\n')
}
