package sym

import (
	"fmt"
	"go/constant"
	"go/token"
	"go/types"
	"strings"
	"sync"
	"unicode"

	"golang.org/x/tools/go/ssa"
)

type intrinsic func(th *Thread, caller *frame, pos token.Pos, fn *ssa.Function, args []Value) Value

var (
	intrMu    sync.Mutex
	intrCache = map[*ssa.Function]intrinsic{}
	intrNone  = map[*ssa.Function]bool{}
)

func lookupIntrinsic(fn *ssa.Function) intrinsic {
	intrMu.Lock()
	defer intrMu.Unlock()
	if ic, ok := intrCache[fn]; ok {
		return ic
	}
	if intrNone[fn] {
		return nil
	}
	name := fn.String()
	if o := fn.Origin(); o != nil {
		name = o.String()
	}
	ic := intrinsics[name]
	if ic == nil {
		intrNone[fn] = true
		return nil
	}
	intrCache[fn] = ic
	return ic
}

// allowedExternal lists non-repo packages whose functions are executed from their real SSA bodies.
func allowedExternal(p *types.Package) bool {
	switch p.Path() {
	case "errors", "golang.org/x/sync/singleflight", "golang.org/x/exp/constraints", "unicode/utf8",
		"slices", "maps", "cmp", "math/bits", "golang.org/x/exp/slices", "golang.org/x/exp/maps":
		// plain (generic) Go without assembly or runtime hooks: executed from source, so that an
		// edit of the repository that starts using them stays decidable
		return true
	}
	return false
}

func term(v Value) *Term { return v.(*Term) }

func boolsOf(th *Thread, v Value) []*Term {
	s := v.(SliceV)
	var out []*Term
	for i := 0; i < s.Len; i++ {
		out = append(out, th.R.sliceElem(s, i).(*Term))
	}
	return out
}

func (r *Run) concreteInt(v Value, what string) int {
	t := v.(*Term)
	if !t.IsConst() {
		r.unsupported("%s must be concrete", what)
	}
	return int(t.SInt())
}

func (r *Run) concreteString(v Value, what string) string {
	s := v.(StringV)
	var sb strings.Builder
	for _, b := range s.B {
		if !b.IsConst() {
			r.unsupported("%s must be a concrete string", what)
		}
		sb.WriteByte(byte(b.Val))
	}
	return sb.String()
}

func (r *Run) opaqueError(msg string) IfaceV {
	r.errSerial++
	return IfaceV{T: opaqueErrorType, V: &opaqueErr{id: r.errSerial, msg: msg}}
}

var intrinsics map[string]intrinsic

func init() {
	V := VrtPath + "."
	intrinsics = map[string]intrinsic{
		// ---- nondeterministic inputs ----
		V + "Int":     func(th *Thread, _ *frame, _ token.Pos, _ *ssa.Function, a []Value) Value { return th.R.fresh("int", SBV64) },
		V + "Int64":   func(th *Thread, _ *frame, _ token.Pos, _ *ssa.Function, a []Value) Value { return th.R.fresh("int64", SBV64) },
		V + "Int32":   func(th *Thread, _ *frame, _ token.Pos, _ *ssa.Function, a []Value) Value { return th.R.fresh("int32", SBV32) },
		V + "Int8":    func(th *Thread, _ *frame, _ token.Pos, _ *ssa.Function, a []Value) Value { return th.R.fresh("int8", SBV8) },
		V + "Byte":    func(th *Thread, _ *frame, _ token.Pos, _ *ssa.Function, a []Value) Value { return th.R.fresh("byte", SBV8) },
		V + "Bool":    func(th *Thread, _ *frame, _ token.Pos, _ *ssa.Function, a []Value) Value { return th.R.fresh("bool", SBool) },
		V + "Float64": func(th *Thread, _ *frame, _ token.Pos, _ *ssa.Function, a []Value) Value { return th.R.fresh("float64", SF64) },
		V + "Str": func(th *Thread, _ *frame, _ token.Pos, _ *ssa.Function, a []Value) Value {
			n := th.R.concreteInt(a[0], "Str length")
			b := make([]*Term, n)
			for i := range b {
				b[i] = th.R.fresh("byte", SBV8)
			}
			return StringV{B: b}
		},
		V + "Assume": func(th *Thread, _ *frame, _ token.Pos, _ *ssa.Function, a []Value) Value {
			th.R.Assume(term(a[0]))
			return nil
		},
		V + "Assert": func(th *Thread, _ *frame, pos token.Pos, _ *ssa.Function, a []Value) Value {
			th.R.assert(nil, term(a[0]), th.R.concreteString(a[1], "assert id"), pos)
			return nil
		},
		V + "AssertUnless": func(th *Thread, _ *frame, pos token.Pos, _ *ssa.Function, a []Value) Value {
			th.R.assert(term(a[0]), term(a[1]), th.R.concreteString(a[2], "assert id"), pos)
			return nil
		},
		V + "Choice": func(th *Thread, _ *frame, _ token.Pos, _ *ssa.Function, a []Value) Value {
			n := th.R.concreteInt(a[0], "Choice bound")
			c := th.R.Choice(n)
			th.R.choices = append(th.R.choices, c)
			return th.R.TB.Int(64, int64(c))
		},
		V + "Cover": func(th *Thread, _ *frame, _ token.Pos, _ *ssa.Function, a []Value) Value {
			th.R.cover(th.R.concreteString(a[0], "cover id"))
			return nil
		},
		V + "Tier": func(th *Thread, _ *frame, _ token.Pos, _ *ssa.Function, a []Value) Value {
			return th.R.TB.Int(64, int64(th.R.E.Tier))
		},
		V + "Pick": func(th *Thread, _ *frame, _ token.Pos, _ *ssa.Function, a []Value) Value {
			if th.R.E.Tier == 0 {
				return a[0]
			}
			return a[1]
		},
		V + "Symbolic": func(th *Thread, _ *frame, _ token.Pos, _ *ssa.Function, a []Value) Value { return th.R.TB.True },
		// ---- term builders (no forking) ----
		V + "And": func(th *Thread, _ *frame, _ token.Pos, _ *ssa.Function, a []Value) Value {
			return th.R.TB.And(boolsOf(th, a[0])...)
		},
		V + "Or": func(th *Thread, _ *frame, _ token.Pos, _ *ssa.Function, a []Value) Value {
			return th.R.TB.Or(boolsOf(th, a[0])...)
		},
		V + "Not": func(th *Thread, _ *frame, _ token.Pos, _ *ssa.Function, a []Value) Value { return th.R.TB.Not(term(a[0])) },
		V + "Implies": func(th *Thread, _ *frame, _ token.Pos, _ *ssa.Function, a []Value) Value {
			return th.R.TB.Implies(term(a[0]), term(a[1]))
		},
		V + "Ite": func(th *Thread, _ *frame, _ token.Pos, _ *ssa.Function, a []Value) Value {
			return th.R.TB.Ite(term(a[0]), term(a[1]), term(a[2]))
		},
		V + "IteB": func(th *Thread, _ *frame, _ token.Pos, _ *ssa.Function, a []Value) Value {
			return th.R.TB.Ite(term(a[0]), term(a[1]), term(a[2]))
		},
		V + "B2I": func(th *Thread, _ *frame, _ token.Pos, _ *ssa.Function, a []Value) Value {
			return th.R.TB.Ite(term(a[0]), th.R.TB.Int(64, 1), th.R.TB.Int(64, 0))
		},
		V + "CountInt": func(th *Thread, _ *frame, _ token.Pos, _ *ssa.Function, a []Value) Value {
			tb := th.R.TB
			s := a[0].(SliceV)
			acc := tb.Int(64, 0)
			for i := 0; i < s.Len; i++ {
				acc = tb.Bin(OAdd, acc, tb.Ite(tb.Eq(th.R.sliceElem(s, i).(*Term), term(a[1])), tb.Int(64, 1), tb.Int(64, 0)))
			}
			return acc
		},
		V + "SeqEqInt": func(th *Thread, _ *frame, _ token.Pos, _ *ssa.Function, a []Value) Value {
			tb := th.R.TB
			x, y := a[0].(SliceV), a[1].(SliceV)
			if x.Len != y.Len {
				return tb.False
			}
			var cs []*Term
			for i := 0; i < x.Len; i++ {
				cs = append(cs, th.R.equal(th.R.sliceElem(x, i), th.R.sliceElem(y, i)))
			}
			return tb.And(cs...)
		},
		V + "StrEq": func(th *Thread, _ *frame, _ token.Pos, _ *ssa.Function, a []Value) Value {
			return th.R.equal(a[0], a[1])
		},
		V + "Concrete": func(th *Thread, _ *frame, _ token.Pos, _ *ssa.Function, a []Value) Value {
			lo, hi := th.R.concreteInt(a[1], "lo"), th.R.concreteInt(a[2], "hi")
			v := th.R.Concretize(term(a[0]), int64(lo), int64(hi), true, "vrt.Concrete")
			return th.R.TB.Int(64, v)
		},
		// ---- uninterpreted functions ----
		// RelInt is an arbitrary strict weak order: a ≺ b iff rank(a) < rank(b) for an uninterpreted
		// rank function (every strict weak order on a finite carrier has such a representation, and
		// every rank function induces one, so no axioms are needed).
		V + "RelInt": func(th *Thread, _ *frame, _ token.Pos, _ *ssa.Function, a []Value) Value {
			tb := th.R.TB
			return tb.Bin(OSlt, tb.App("RankInt", SBV64, term(a[0])), tb.App("RankInt", SBV64, term(a[1])))
		},
		V + "FnInt": func(th *Thread, _ *frame, _ token.Pos, _ *ssa.Function, a []Value) Value {
			return th.R.TB.App("FnInt", SBV64, term(a[0]))
		},
		V + "PredInt": func(th *Thread, _ *frame, _ token.Pos, _ *ssa.Function, a []Value) Value {
			return th.R.TB.App("PredInt", SBool, term(a[0]))
		},
		V + "Pred2Int": func(th *Thread, _ *frame, _ token.Pos, _ *ssa.Function, a []Value) Value {
			return th.R.TB.App("Pred2Int", SBool, term(a[0]), term(a[1]))
		},
		V + "Fn2Int": func(th *Thread, _ *frame, _ token.Pos, _ *ssa.Function, a []Value) Value {
			return th.R.TB.App("Fn2Int", SBV64, term(a[0]), term(a[1]))
		},
		V + "AssumeSWO": func(th *Thread, _ *frame, _ token.Pos, _ *ssa.Function, a []Value) Value { return nil },
		// ---- control ----
		V + "Try": func(th *Thread, caller *frame, pos token.Pos, _ *ssa.Function, a []Value) Value {
			return th.R.TB.Bool(th.try(caller, pos, a[0]))
		},
		V + "LastPanic": func(th *Thread, _ *frame, _ token.Pos, _ *ssa.Function, a []Value) Value {
			return th.R.strConst(th.R.lastPanic)
		},
		V + "SameArray": func(th *Thread, _ *frame, _ token.Pos, _ *ssa.Function, a []Value) Value {
			x, y := a[0].(SliceV), a[1].(SliceV)
			return th.R.TB.Bool(x.sameBacking(y) && x.Cap > 0 && y.Cap > 0 && x.Off < y.Off+y.Cap && y.Off < x.Off+x.Cap)
		},
		V + "MapOrderMode": func(th *Thread, _ *frame, _ token.Pos, _ *ssa.Function, a []Value) Value {
			th.R.mapOrderMode = th.R.concreteInt(a[0], "map order mode")
			return nil
		},
		V + "Note": func(th *Thread, _ *frame, _ token.Pos, _ *ssa.Function, a []Value) Value {
			th.curOp = th.R.concreteString(a[0], "Note label")
			return nil
		},
		V + "Share": func(th *Thread, _ *frame, _ token.Pos, _ *ssa.Function, a []Value) Value {
			th.R.share(a[0], true)
			return nil
		},
		V + "ShareNoRaceCheck": func(th *Thread, _ *frame, _ token.Pos, _ *ssa.Function, a []Value) Value {
			th.R.share(a[0], false)
			return nil
		},
		V + "Par": func(th *Thread, caller *frame, pos token.Pos, _ *ssa.Function, a []Value) Value {
			th.par(caller, pos, a[0].(SliceV))
			return nil
		},
		V + "FiredCount": func(th *Thread, _ *frame, _ token.Pos, _ *ssa.Function, a []Value) Value {
			return th.R.TB.Int(64, int64(len(th.R.firedLog)))
		},
		V + "Settle": func(th *Thread, _ *frame, _ token.Pos, _ *ssa.Function, a []Value) Value {
			// let every other runnable thread (background goroutines of the code under test) run
			// until it blocks or finishes
			if th.ID == 0 {
				th.R.quiesce(th)
			}
			return nil
		},
		V + "PreemptBound": func(th *Thread, _ *frame, _ token.Pos, _ *ssa.Function, a []Value) Value {
			th.R.preemptSet, th.R.preemptBound = true, th.R.concreteInt(a[0], "pre-emption bound")
			return nil
		},
		V + "Yield": func(th *Thread, _ *frame, _ token.Pos, _ *ssa.Function, a []Value) Value {
			th.yield()
			return nil
		},
		V + "Stamp": func(th *Thread, _ *frame, _ token.Pos, _ *ssa.Function, a []Value) Value {
			th.R.stamp++
			return th.R.TB.Int(64, int64(th.R.stamp))
		},
		V + "Advance": func(th *Thread, caller *frame, pos token.Pos, _ *ssa.Function, a []Value) Value {
			th.advanceTimers(caller, pos, false)
			return nil
		},
		V + "Quiesce": func(th *Thread, caller *frame, pos token.Pos, _ *ssa.Function, a []Value) Value {
			th.advanceTimers(caller, pos, true)
			return nil
		},
		V + "NowNano": func(th *Thread, _ *frame, _ token.Pos, _ *ssa.Function, a []Value) Value { return th.R.nowTerm() },
		V + "LocksHeld": func(th *Thread, _ *frame, _ token.Pos, _ *ssa.Function, a []Value) Value {
			n := 0
			for _, ls := range th.R.locks {
				if ls.writer != nil || len(ls.readers) > 0 {
					n++
				}
			}
			return th.R.TB.Int(64, int64(n))
		},

		// ---- sync ----
		"(*sync.Mutex).Lock":   func(th *Thread, _ *frame, pos token.Pos, _ *ssa.Function, a []Value) Value { th.lock(a[0].(Ptr), pos); return nil },
		"(*sync.Mutex).Unlock": func(th *Thread, _ *frame, pos token.Pos, _ *ssa.Function, a []Value) Value { th.unlock(a[0].(Ptr), pos); return nil },
		"(*sync.RWMutex).Lock": func(th *Thread, _ *frame, pos token.Pos, _ *ssa.Function, a []Value) Value { th.lock(a[0].(Ptr), pos); return nil },
		"(*sync.RWMutex).Unlock": func(th *Thread, _ *frame, pos token.Pos, _ *ssa.Function, a []Value) Value {
			th.unlock(a[0].(Ptr), pos)
			return nil
		},
		"(*sync.RWMutex).RLock": func(th *Thread, _ *frame, pos token.Pos, _ *ssa.Function, a []Value) Value { th.rlock(a[0].(Ptr), pos); return nil },
		"(*sync.RWMutex).RUnlock": func(th *Thread, _ *frame, pos token.Pos, _ *ssa.Function, a []Value) Value {
			th.runlock(a[0].(Ptr), pos)
			return nil
		},
		"(*sync.WaitGroup).Add": func(th *Thread, _ *frame, pos token.Pos, _ *ssa.Function, a []Value) Value {
			w := th.R.wgOf(a[0].(Ptr))
			w.n += int64(th.R.concreteInt(a[1], "WaitGroup delta"))
			if w.n < 0 {
				th.targetPanic("sync: negative WaitGroup counter", pos)
			}
			return nil
		},
		"(*sync.WaitGroup).Done": func(th *Thread, _ *frame, pos token.Pos, _ *ssa.Function, a []Value) Value {
			w := th.R.wgOf(a[0].(Ptr))
			w.n--
			if w.n < 0 {
				th.targetPanic("sync: negative WaitGroup counter", pos)
			}
			return nil
		},
		"(*sync.WaitGroup).Wait": func(th *Thread, _ *frame, pos token.Pos, _ *ssa.Function, a []Value) Value {
			w := th.R.wgOf(a[0].(Ptr))
			th.yield()
			th.block("WaitGroup.Wait", func() bool { return w.n == 0 })
			return nil
		},
		"(*sync.Cond).Wait": func(th *Thread, _ *frame, pos token.Pos, _ *ssa.Function, a []Value) Value {
			p := a[0].(Ptr)
			cs := th.R.condOf(p)
			l := walk(p.Obj.V, p.Path).(*StructV).F[1].(IfaceV) // Cond.L
			lp := l.V.(Ptr)
			th.unlock(lp, pos)
			w := &condWaiter{}
			cs.waiters = append(cs.waiters, w)
			th.block("Cond.Wait", func() bool { return w.signalled })
			th.lock(lp, pos)
			return nil
		},
		"(*sync.Cond).Broadcast": func(th *Thread, _ *frame, pos token.Pos, _ *ssa.Function, a []Value) Value {
			cs := th.R.condOf(a[0].(Ptr))
			for _, w := range cs.waiters {
				w.signalled = true
			}
			cs.waiters = nil
			return nil
		},
		"(*sync.Cond).Signal": func(th *Thread, _ *frame, pos token.Pos, _ *ssa.Function, a []Value) Value {
			cs := th.R.condOf(a[0].(Ptr))
			if len(cs.waiters) > 0 {
				cs.waiters[0].signalled = true
				cs.waiters = cs.waiters[1:]
			}
			return nil
		},

		// ---- fmt / errors / misc ----
		"fmt.Errorf": func(th *Thread, _ *frame, pos token.Pos, _ *ssa.Function, a []Value) Value {
			f := a[0].(StringV)
			msg := ""
			for _, b := range f.B {
				if b.IsConst() {
					msg += string(rune(b.Val))
				}
			}
			if strings.Contains(msg, "%w") {
				th.R.unsupported("fmt.Errorf with %%w")
			}
			return th.R.opaqueError(msg)
		},
		"fmt.Sprintf": func(th *Thread, _ *frame, pos token.Pos, _ *ssa.Function, a []Value) Value {
			f := th.R.concreteString(a[0], "format")
			args := a[1].(SliceV)
			if (f == "%v" || f == "%d") && args.Len == 1 {
				if iv, ok := th.R.sliceElem(args, 0).(IfaceV); ok {
					if b := basicOf(iv.T); b != nil && b.Info()&types.IsInteger != 0 {
						_, signed := intInfo(b)
						return StringV{Opaque: &OpaqueStr{Kind: "itoa", Num: th.R.TB.Resize(iv.V.(*Term), 64, signed)}}
					}
				}
			}
			return StringV{Opaque: &OpaqueStr{Kind: "msg"}}
		},
		"strconv.ParseInt": func(th *Thread, _ *frame, pos token.Pos, _ *ssa.Function, a []Value) Value {
			s := a[0].(StringV)
			if s.Opaque == nil || s.Opaque.Kind != "itoa" {
				th.R.unsupported("strconv.ParseInt on a string not produced by Sprintf(%%v, int)")
			}
			bits := th.R.concreteInt(a[2], "bitSize")
			// in-range check: the number was formatted from a value of this type, so it fits when the
			// sign-extended truncation equals the number.
			tb := th.R.TB
			n := s.Opaque.Num
			fits := tb.Eq(tb.Resize(tb.Resize(n, bits, true), 64, true), n)
			if !th.R.Branch(fits) {
				return TupleV{tb.Int(64, 0), th.R.opaqueError("strconv: out of range")}
			}
			return TupleV{n, IfaceV{}}
		},
		"reflect.TypeOf": func(th *Thread, _ *frame, pos token.Pos, _ *ssa.Function, a []Value) Value {
			iv := a[0].(IfaceV)
			if iv.T == nil {
				th.R.unsupported("reflect.TypeOf(nil)")
			}
			return IfaceV{T: reflectTypeType, V: iv.T}
		},
		"runtime.SetFinalizer": func(th *Thread, _ *frame, pos token.Pos, _ *ssa.Function, a []Value) Value { return nil },
		"math.Floor":           func(th *Thread, _ *frame, pos token.Pos, _ *ssa.Function, a []Value) Value { return th.R.TB.FUn(OFFloor, term(a[0])) },
		"math.Ceil":            func(th *Thread, _ *frame, pos token.Pos, _ *ssa.Function, a []Value) Value { return th.R.TB.FUn(OFCeil, term(a[0])) },
		"math/rand.Int": func(th *Thread, _ *frame, pos token.Pos, _ *ssa.Function, a []Value) Value {
			r := th.R
			t := r.fresh("rand", SBV64)
			r.assume(r.TB.Bin(OSle, r.TB.Int(64, 0), t), true)
			return t
		},
		"unicode.ToLower": func(th *Thread, _ *frame, pos token.Pos, _ *ssa.Function, a []Value) Value { return th.R.caseMap("uni_lower", term(a[0])) },
		"unicode.ToUpper": func(th *Thread, _ *frame, pos token.Pos, _ *ssa.Function, a []Value) Value { return th.R.caseMap("uni_upper", term(a[0])) },
		"sort.Slice": func(th *Thread, caller *frame, pos token.Pos, _ *ssa.Function, a []Value) Value {
			sl := a[0].(IfaceV).V.(SliceV)
			less := a[1]
			tb := th.R.TB
			for i := 1; i < sl.Len; i++ {
				for j := i; j > 0; j-- {
					lt := th.call(caller, pos, less, []Value{tb.Int(64, int64(j)), tb.Int(64, int64(j-1))}).(*Term)
					if !th.R.Branch(lt) {
						break
					}
					pa := sl.elemPtr(j)
					pb := sl.elemPtr(j - 1)
					va, vb := th.load(pa, pos), th.load(pb, pos)
					th.store(pa, vb, pos)
					th.store(pb, va, pos)
				}
			}
			return nil
		},
		// strings: redirected to Go models in zzvrt executed symbolically
		"strings.Repeat":    modelCall("ModelRepeat"),
		"strings.Index":     modelCall("ModelIndex"),
		"strings.LastIndex": modelCall("ModelLastIndex"),
		"strings.TrimSpace": modelCall("ModelTrimSpace"),
		"strings.Split":     modelCall("ModelSplit"),
		"(*strings.Builder).WriteString": func(th *Thread, _ *frame, pos token.Pos, _ *ssa.Function, a []Value) Value {
			k := a[0].(Ptr).Key()
			s := a[1].(StringV)
			if s.Opaque != nil {
				th.R.unsupported("Builder.WriteString of opaque string")
			}
			th.R.builders[k] = append(th.R.builders[k], s.B...)
			return TupleV{th.R.TB.Int(64, int64(len(s.B))), IfaceV{}}
		},
		"(*strings.Builder).WriteRune": func(th *Thread, _ *frame, pos token.Pos, _ *ssa.Function, a []Value) Value {
			k := a[0].(Ptr).Key()
			enc := th.R.encodeRune(term(a[1]))
			th.R.builders[k] = append(th.R.builders[k], enc...)
			return TupleV{th.R.TB.Int(64, int64(len(enc))), IfaceV{}}
		},
		"(*strings.Builder).WriteByte": func(th *Thread, _ *frame, pos token.Pos, _ *ssa.Function, a []Value) Value {
			k := a[0].(Ptr).Key()
			th.R.builders[k] = append(th.R.builders[k], term(a[1]))
			return IfaceV{}
		},
		"(*strings.Builder).String": func(th *Thread, _ *frame, pos token.Pos, _ *ssa.Function, a []Value) Value {
			k := a[0].(Ptr).Key()
			return StringV{B: append([]*Term(nil), th.R.builders[k]...)}
		},
		"(*strings.Builder).Len": func(th *Thread, _ *frame, pos token.Pos, _ *ssa.Function, a []Value) Value {
			return th.R.TB.Int(64, int64(len(th.R.builders[a[0].(Ptr).Key()])))
		},
		"(*strings.Builder).Grow":  func(th *Thread, _ *frame, pos token.Pos, _ *ssa.Function, a []Value) Value { return nil },
		"(*strings.Builder).Reset": func(th *Thread, _ *frame, pos token.Pos, _ *ssa.Function, a []Value) Value { delete(th.R.builders, a[0].(Ptr).Key()); return nil },
	}
	addTimeIntrinsics()
	addAtomicIntrinsics()
}

func modelCall(name string) intrinsic {
	return func(th *Thread, caller *frame, pos token.Pos, _ *ssa.Function, a []Value) Value {
		p := th.R.E.Pkgs[VrtPath]
		if p == nil {
			th.R.unsupported("zzvrt package not loaded")
		}
		f := p.Func(name)
		if f == nil {
			th.R.unsupported("model %s missing in zzvrt", name)
		}
		return th.callSSA(caller, pos, f, a, nil)
	}
}

func (th *Thread) try(caller *frame, pos token.Pos, f Value) (panicked bool) {
	saved := th.top
	defer func() {
		if rec := recover(); rec != nil {
			gp, ok := rec.(*goPanic)
			if !ok {
				panic(rec)
			}
			th.top = saved
			th.R.lastPanic = gp.Msg + " at " + th.R.E.Pos(gp.Pos)
			panicked = true
		}
	}()
	th.call(caller, pos, f, nil)
	return false
}

// ---- reflect.Type special methods ----

var kindOf = map[types.BasicKind]int64{
	types.Bool: 1, types.Int: 2, types.Int8: 3, types.Int16: 4, types.Int32: 5, types.Int64: 6,
	types.Uint: 7, types.Uint8: 8, types.Uint16: 9, types.Uint32: 10, types.Uint64: 11, types.Uintptr: 12,
	types.Float32: 13, types.Float64: 14, types.Complex64: 15, types.Complex128: 16, types.String: 24,
}

func (r *Run) lookupSpecialMethod(recv IfaceV, m *types.Func) *FuncV {
	switch recv.T {
	case reflectTypeType:
		t := recv.V.(types.Type)
		switch m.Name() {
		case "Kind":
			return &FuncV{Name: "reflect.Type.Kind", Native: func(th *Thread, args []Value) Value {
				b := basicOf(t)
				if b == nil {
					r.unsupported("reflect Kind of %s", t)
				}
				return r.TB.Const(SBV64, uint64(kindOf[b.Kind()]))
			}}
		case "Bits":
			return &FuncV{Name: "reflect.Type.Bits", Native: func(th *Thread, args []Value) Value {
				return r.TB.Int(64, r.E.Sizes.Sizeof(t)*8)
			}}
		}
		r.unsupported("reflect.Type.%s", m.Name())
	case opaqueErrorType:
		if m.Name() == "Error" {
			return &FuncV{Name: "opaqueError.Error", Native: func(th *Thread, args []Value) Value {
				return StringV{Opaque: &OpaqueStr{Kind: "msg"}}
			}}
		}
		r.unsupported("method %s on opaque error", m.Name())
	}
	return nil
}

// ---- unicode case mapping ----

type caseRange struct {
	lo, hi uint32
	delta  int32
}

const caseLimit = 0x100

var lowerRanges, upperRanges []caseRange

func init() {
	build := func(f func(rune) rune) []caseRange {
		var out []caseRange
		for c := rune(0); c < caseLimit; c++ {
			d := int32(f(c) - c)
			if d == 0 {
				continue
			}
			if n := len(out); n > 0 && out[n-1].hi == uint32(c-1) && out[n-1].delta == d {
				out[n-1].hi = uint32(c)
			} else {
				out = append(out, caseRange{uint32(c), uint32(c), d})
			}
		}
		return out
	}
	lowerRanges = build(unicode.ToLower)
	upperRanges = build(unicode.ToUpper)
}

// caseMap returns the image of a rune under unicode.ToLower/ToUpper. For runes below caseLimit (and
// U+FFFD) the mapping is exact (table generated from the host's unicode package, which is the
// repo's toolchain); above it the function is uninterpreted.
func (r *Run) caseMap(name string, x *Term) *Term {
	tb := r.TB
	if x.IsConst() {
		if name == "uni_lower" {
			return tb.Int(32, int64(unicode.ToLower(rune(x.SInt()))))
		}
		return tb.Int(32, int64(unicode.ToUpper(rune(x.SInt()))))
	}
	ranges := lowerRanges
	if name == "uni_upper" {
		ranges = upperRanges
	}
	uf := tb.App(name, SBV32, x)
	res := tb.Ite(tb.Eq(x, tb.Int(32, 0xFFFD)), x, uf)
	// below the limit: x + delta of its range, default identity
	inner := x
	for i := len(ranges) - 1; i >= 0; i-- {
		rg := ranges[i]
		in := tb.And(tb.Bin(OUle, tb.Int(32, int64(rg.lo)), x), tb.Bin(OUle, x, tb.Int(32, int64(rg.hi))))
		inner = tb.Ite(in, tb.Bin(OAdd, x, tb.Int(32, int64(rg.delta))), inner)
	}
	return tb.Ite(tb.Bin(OUlt, x, tb.Int(32, caseLimit)), inner, res)
}

var _ = constant.MakeBool
var _ = fmt.Sprint
