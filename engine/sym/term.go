// Package sym is the symbolic executor: go/ssa -> SMT-LIB2 terms, path exploration, z3.
package sym

import (
	"fmt"
	"math"
	"math/bits"
	"sort"
	"strings"
)

// Sort of a term.
type Sort uint8

const (
	SBool Sort = iota
	SBV8
	SBV16
	SBV32
	SBV64
	SF64
)

func (s Sort) Width() int {
	switch s {
	case SBV8:
		return 8
	case SBV16:
		return 16
	case SBV32:
		return 32
	case SBV64:
		return 64
	}
	return 0
}

func BVSort(w int) Sort {
	switch w {
	case 8:
		return SBV8
	case 16:
		return SBV16
	case 32:
		return SBV32
	case 64:
		return SBV64
	}
	panic(fmt.Sprintf("bad bv width %d", w))
}

func (s Sort) SMT() string {
	switch s {
	case SBool:
		return "Bool"
	case SF64:
		return "(_ FloatingPoint 11 53)"
	}
	return fmt.Sprintf("(_ BitVec %d)", s.Width())
}

type Op uint8

const (
	OConst Op = iota
	OSym
	OApp // uninterpreted function application; name = function
	ONot
	OAnd
	OOr
	OIte
	OEq
	OAdd
	OSub
	OMul
	OSDiv
	OUDiv
	OSRem
	OURem
	OBAnd
	OBOr
	OBXor
	OShl
	OLshr
	OAshr
	ONeg
	OBNot
	OSlt
	OSle
	OUlt
	OUle
	OZExt  // to t.sort
	OSExt  // to t.sort
	OTrunc // to t.sort (low bits)
	// floating point (float64 only)
	OFAdd
	OFSub
	OFMul
	OFDiv
	OFNeg
	OFLt
	OFLe
	OFEq
	OFIsNaN
	OFFromS // signed bv -> f64
	OFFromU // unsigned bv -> f64
	OFToS   // f64 -> signed bv (RTZ), sort = target
	OFToU
	OFFloor
	OFCeil
)

var opNames = map[Op]string{
	ONot: "not", OAnd: "and", OOr: "or", OIte: "ite", OEq: "=",
	OAdd: "bvadd", OSub: "bvsub", OMul: "bvmul", OSDiv: "bvsdiv", OUDiv: "bvudiv", OSRem: "bvsrem", OURem: "bvurem",
	OBAnd: "bvand", OBOr: "bvor", OBXor: "bvxor", OShl: "bvshl", OLshr: "bvlshr", OAshr: "bvashr", ONeg: "bvneg", OBNot: "bvnot",
	OSlt: "bvslt", OSle: "bvsle", OUlt: "bvult", OUle: "bvule",
	OFAdd: "fp.add RNE", OFSub: "fp.sub RNE", OFMul: "fp.mul RNE", OFDiv: "fp.div RNE", OFNeg: "fp.neg",
	OFLt: "fp.lt", OFLe: "fp.leq", OFEq: "fp.eq", OFIsNaN: "fp.isNaN",
	OFFloor: "fp.roundToIntegral RTN", OFCeil: "fp.roundToIntegral RTP",
}

// Term is a hash-consed DAG node.
type Term struct {
	Op   Op
	Sort Sort
	Args []*Term
	Val  uint64 // OConst: bits (bool: 0/1; f64: IEEE bits)
	Name string // OSym / OApp
	ID   int
}

// UFDecl is an uninterpreted function signature.
type UFDecl struct {
	Name string
	Args []Sort
	Ret  Sort
}

// Table hash-conses terms. One per path.
type Table struct {
	terms map[string]*Term
	next  int
	UFs   map[string]*UFDecl
	True  *Term
	False *Term
}

func NewTable() *Table {
	t := &Table{terms: map[string]*Term{}, UFs: map[string]*UFDecl{}}
	t.True = t.Const(SBool, 1)
	t.False = t.Const(SBool, 0)
	return t
}

func (tb *Table) mk(op Op, s Sort, val uint64, name string, args ...*Term) *Term {
	var sb strings.Builder
	fmt.Fprintf(&sb, "%d:%d:%d:%s", op, s, val, name)
	for _, a := range args {
		fmt.Fprintf(&sb, ",%d", a.ID)
	}
	k := sb.String()
	if t, ok := tb.terms[k]; ok {
		return t
	}
	t := &Term{Op: op, Sort: s, Args: append([]*Term(nil), args...), Val: val, Name: name, ID: tb.next}
	tb.next++
	tb.terms[k] = t
	return t
}

func mask(w int) uint64 {
	if w >= 64 {
		return ^uint64(0)
	}
	return (uint64(1) << uint(w)) - 1
}

func (tb *Table) Const(s Sort, v uint64) *Term {
	if s == SBool {
		v &= 1
	} else if s != SF64 {
		v &= mask(s.Width())
	}
	return tb.mk(OConst, s, v, "")
}
func (tb *Table) Bool(b bool) *Term {
	if b {
		return tb.True
	}
	return tb.False
}
func (tb *Table) Int(w int, v int64) *Term { return tb.Const(BVSort(w), uint64(v)) }
func (tb *Table) Float(f float64) *Term     { return tb.Const(SF64, math.Float64bits(f)) }
func (tb *Table) Sym(s Sort, name string) *Term {
	return tb.mk(OSym, s, 0, name)
}

func (t *Term) IsConst() bool { return t.Op == OConst }
func (t *Term) IsTrue() bool  { return t.Op == OConst && t.Sort == SBool && t.Val == 1 }
func (t *Term) IsFalse() bool { return t.Op == OConst && t.Sort == SBool && t.Val == 0 }

// SInt returns the constant as a signed integer.
func (t *Term) SInt() int64 {
	w := t.Sort.Width()
	if w == 0 {
		return int64(t.Val)
	}
	return sext(t.Val, w)
}
func (t *Term) UInt() uint64 { return t.Val }
func (t *Term) F64() float64 { return math.Float64frombits(t.Val) }

func sext(v uint64, w int) int64 {
	if w >= 64 {
		return int64(v)
	}
	sh := uint(64 - w)
	return int64(v<<sh) >> sh
}

func (tb *Table) App(name string, ret Sort, args ...*Term) *Term {
	if _, ok := tb.UFs[name]; !ok {
		d := &UFDecl{Name: name, Ret: ret}
		for _, a := range args {
			d.Args = append(d.Args, a.Sort)
		}
		tb.UFs[name] = d
	}
	return tb.mk(OApp, ret, 0, name, args...)
}

func (tb *Table) Not(a *Term) *Term {
	if a.IsConst() {
		return tb.Bool(a.Val == 0)
	}
	if a.Op == ONot {
		return a.Args[0]
	}
	return tb.mk(ONot, SBool, 0, "", a)
}

func (tb *Table) And(as ...*Term) *Term {
	var out []*Term
	seen := map[int]bool{}
	for _, a := range as {
		if a.IsFalse() {
			return tb.False
		}
		if a.IsTrue() || seen[a.ID] {
			continue
		}
		if a.Op == OAnd {
			for _, b := range a.Args {
				if !seen[b.ID] {
					seen[b.ID] = true
					out = append(out, b)
				}
			}
			continue
		}
		seen[a.ID] = true
		out = append(out, a)
	}
	for _, a := range out {
		if a.Op == ONot && seen[a.Args[0].ID] {
			return tb.False
		}
	}
	switch len(out) {
	case 0:
		return tb.True
	case 1:
		return out[0]
	}
	return tb.mk(OAnd, SBool, 0, "", out...)
}

func (tb *Table) Or(as ...*Term) *Term {
	var out []*Term
	seen := map[int]bool{}
	for _, a := range as {
		if a.IsTrue() {
			return tb.True
		}
		if a.IsFalse() || seen[a.ID] {
			continue
		}
		if a.Op == OOr {
			for _, b := range a.Args {
				if !seen[b.ID] {
					seen[b.ID] = true
					out = append(out, b)
				}
			}
			continue
		}
		seen[a.ID] = true
		out = append(out, a)
	}
	for _, a := range out {
		if a.Op == ONot && seen[a.Args[0].ID] {
			return tb.True
		}
	}
	switch len(out) {
	case 0:
		return tb.False
	case 1:
		return out[0]
	}
	return tb.mk(OOr, SBool, 0, "", out...)
}

func (tb *Table) Implies(a, b *Term) *Term { return tb.Or(tb.Not(a), b) }

func (tb *Table) Ite(c, a, b *Term) *Term {
	if c.IsTrue() {
		return a
	}
	if c.IsFalse() {
		return b
	}
	if a == b {
		return a
	}
	if a.Sort != b.Sort {
		panic(fmt.Sprintf("ite sort mismatch %v %v", a.Sort, b.Sort))
	}
	if a.Sort == SBool {
		if a.IsTrue() && b.IsFalse() {
			return c
		}
		if a.IsFalse() && b.IsTrue() {
			return tb.Not(c)
		}
		if a.IsTrue() {
			return tb.Or(c, b)
		}
		if a.IsFalse() {
			return tb.And(tb.Not(c), b)
		}
		if b.IsTrue() {
			return tb.Or(tb.Not(c), a)
		}
		if b.IsFalse() {
			return tb.And(c, a)
		}
	}
	return tb.mk(OIte, a.Sort, 0, "", c, a, b)
}

func (tb *Table) Eq(a, b *Term) *Term {
	if a.Sort != b.Sort {
		panic(fmt.Sprintf("eq sort mismatch %v %v", a.Sort, b.Sort))
	}
	if a.Sort == SF64 {
		panic("use FEq for floats")
	}
	if a == b {
		return tb.True
	}
	if a.IsConst() && b.IsConst() {
		return tb.Bool(a.Val == b.Val)
	}
	if a.Sort == SBool {
		if a.IsTrue() {
			return b
		}
		if b.IsTrue() {
			return a
		}
		if a.IsFalse() {
			return tb.Not(b)
		}
		if b.IsFalse() {
			return tb.Not(a)
		}
	}
	// eq(ite(c,k1,k2), k) with constants
	if b.IsConst() && a.Op == OIte && a.Args[1].IsConst() && a.Args[2].IsConst() {
		return tb.Ite(a.Args[0], tb.Bool(a.Args[1].Val == b.Val), tb.Bool(a.Args[2].Val == b.Val))
	}
	if a.IsConst() && b.Op == OIte && b.Args[1].IsConst() && b.Args[2].IsConst() {
		return tb.Ite(b.Args[0], tb.Bool(b.Args[1].Val == a.Val), tb.Bool(b.Args[2].Val == a.Val))
	}
	if a.ID > b.ID {
		a, b = b, a
	}
	return tb.mk(OEq, SBool, 0, "", a, b)
}

// Bin builds a bit-vector binary operation with constant folding.
func (tb *Table) Bin(op Op, a, b *Term) *Term {
	if a.Sort != b.Sort {
		panic(fmt.Sprintf("bin %v sort mismatch %v %v", op, a.Sort, b.Sort))
	}
	w := a.Sort.Width()
	ret := a.Sort
	switch op {
	case OSlt, OSle, OUlt, OUle:
		ret = SBool
	}
	if a.IsConst() && b.IsConst() {
		x, y := a.Val, b.Val
		sx, sy := sext(x, w), sext(y, w)
		switch op {
		case OAdd:
			return tb.Const(ret, x+y)
		case OSub:
			return tb.Const(ret, x-y)
		case OMul:
			return tb.Const(ret, x*y)
		case OSDiv:
			if y != 0 {
				if sy == -1 {
					return tb.Const(ret, uint64(-sx))
				}
				return tb.Const(ret, uint64(sx/sy))
			}
		case OUDiv:
			if y != 0 {
				return tb.Const(ret, x/y)
			}
		case OSRem:
			if y != 0 {
				if sy == -1 {
					return tb.Const(ret, 0)
				}
				return tb.Const(ret, uint64(sx%sy))
			}
		case OURem:
			if y != 0 {
				return tb.Const(ret, x%y)
			}
		case OBAnd:
			return tb.Const(ret, x&y)
		case OBOr:
			return tb.Const(ret, x|y)
		case OBXor:
			return tb.Const(ret, x^y)
		case OShl:
			if y >= uint64(w) {
				return tb.Const(ret, 0)
			}
			return tb.Const(ret, x<<y)
		case OLshr:
			if y >= uint64(w) {
				return tb.Const(ret, 0)
			}
			return tb.Const(ret, x>>y)
		case OAshr:
			if y >= uint64(w) {
				y = uint64(w - 1)
			}
			return tb.Const(ret, uint64(sx>>y))
		case OSlt:
			return tb.Bool(sx < sy)
		case OSle:
			return tb.Bool(sx <= sy)
		case OUlt:
			return tb.Bool(x < y)
		case OUle:
			return tb.Bool(x <= y)
		}
	}
	// identities
	switch op {
	case OAdd:
		if a.IsConst() && a.Val == 0 {
			return b
		}
		if b.IsConst() && b.Val == 0 {
			return a
		}
		if a.IsConst() { // constants to the right
			a, b = b, a
		}
		// (x + c1) + c2
		if b.IsConst() && a.Op == OAdd && a.Args[1].IsConst() {
			return tb.Bin(OAdd, a.Args[0], tb.Const(ret, a.Args[1].Val+b.Val))
		}
	case OSub:
		if b.IsConst() && b.Val == 0 {
			return a
		}
		if a == b {
			return tb.Const(ret, 0)
		}
		if b.IsConst() {
			return tb.Bin(OAdd, a, tb.Const(ret, -b.Val))
		}
	case OMul:
		if a.IsConst() && a.Val == 1 {
			return b
		}
		if b.IsConst() && b.Val == 1 {
			return a
		}
		if (a.IsConst() && a.Val == 0) || (b.IsConst() && b.Val == 0) {
			return tb.Const(ret, 0)
		}
	case OBAnd, OBOr:
		if a == b {
			return a
		}
	case OBXor:
		if a == b {
			return tb.Const(ret, 0)
		}
	case OSlt, OUlt:
		if a == b {
			return tb.False
		}
	case OSle, OUle:
		if a == b {
			return tb.True
		}
	}
	return tb.mk(op, ret, 0, "", a, b)
}

func (tb *Table) Neg(a *Term) *Term {
	if a.IsConst() {
		return tb.Const(a.Sort, -a.Val)
	}
	return tb.mk(ONeg, a.Sort, 0, "", a)
}
func (tb *Table) BNot(a *Term) *Term {
	if a.IsConst() {
		return tb.Const(a.Sort, ^a.Val)
	}
	return tb.mk(OBNot, a.Sort, 0, "", a)
}

// Resize converts bit-vector a to width w (signed selects sign extension).
func (tb *Table) Resize(a *Term, w int, signed bool) *Term {
	aw := a.Sort.Width()
	if aw == w {
		return a
	}
	ns := BVSort(w)
	if a.IsConst() {
		if w < aw {
			return tb.Const(ns, a.Val)
		}
		if signed {
			return tb.Const(ns, uint64(sext(a.Val, aw)))
		}
		return tb.Const(ns, a.Val)
	}
	if w < aw {
		// trunc(ext(x)) == x when widths match
		if (a.Op == OZExt || a.Op == OSExt) && a.Args[0].Sort == ns {
			return a.Args[0]
		}
		return tb.mk(OTrunc, ns, 0, "", a)
	}
	if signed {
		return tb.mk(OSExt, ns, 0, "", a)
	}
	return tb.mk(OZExt, ns, 0, "", a)
}

// ---- floats ----

func (tb *Table) FBin(op Op, a, b *Term) *Term {
	if a.IsConst() && b.IsConst() {
		x, y := a.F64(), b.F64()
		switch op {
		case OFAdd:
			return tb.Float(x + y)
		case OFSub:
			return tb.Float(x - y)
		case OFMul:
			return tb.Float(x * y)
		case OFDiv:
			return tb.Float(x / y)
		case OFLt:
			return tb.Bool(x < y)
		case OFLe:
			return tb.Bool(x <= y)
		case OFEq:
			return tb.Bool(x == y)
		}
	}
	ret := SF64
	switch op {
	case OFLt, OFLe, OFEq:
		ret = SBool
	}
	return tb.mk(op, ret, 0, "", a, b)
}

func (tb *Table) FUn(op Op, a *Term) *Term {
	if a.IsConst() {
		x := a.F64()
		switch op {
		case OFNeg:
			return tb.Float(-x)
		case OFFloor:
			return tb.Float(math.Floor(x))
		case OFCeil:
			return tb.Float(math.Ceil(x))
		case OFIsNaN:
			return tb.Bool(x != x)
		}
	}
	ret := SF64
	if op == OFIsNaN {
		ret = SBool
	}
	return tb.mk(op, ret, 0, "", a)
}

func (tb *Table) FFromInt(a *Term, signed bool) *Term {
	if a.IsConst() {
		if signed {
			return tb.Float(float64(a.SInt()))
		}
		return tb.Float(float64(a.Val))
	}
	if signed {
		return tb.mk(OFFromS, SF64, 0, "", a)
	}
	return tb.mk(OFFromU, SF64, 0, "", a)
}

func (tb *Table) FToInt(a *Term, w int, signed bool) *Term {
	if a.IsConst() {
		x := a.F64()
		if x == x && math.Abs(x) < 9e18 {
			if signed {
				return tb.Int(w, int64(x))
			} else if x >= 0 {
				return tb.Const(BVSort(w), uint64(x))
			}
		}
	}
	if signed {
		return tb.mk(OFToS, BVSort(w), 0, "", a)
	}
	return tb.mk(OFToU, BVSort(w), 0, "", a)
}

// ---- printing ----

func constSMT(t *Term) string {
	switch t.Sort {
	case SBool:
		if t.Val == 1 {
			return "true"
		}
		return "false"
	case SF64:
		b := t.Val
		return fmt.Sprintf("(fp #b%01b #b%011b #b%052b)", b>>63, (b>>52)&0x7ff, b&((1<<52)-1))
	}
	w := t.Sort.Width()
	return fmt.Sprintf("#x%0*x", w/4, t.Val)
}

func ref(t *Term) string {
	switch t.Op {
	case OConst:
		return constSMT(t)
	case OSym:
		return t.Name
	}
	return fmt.Sprintf("t%d", t.ID)
}

func exprSMT(t *Term) string {
	var args []string
	for _, a := range t.Args {
		args = append(args, ref(a))
	}
	j := strings.Join(args, " ")
	switch t.Op {
	case OApp:
		if len(args) == 0 {
			return t.Name
		}
		return "(" + t.Name + " " + j + ")"
	case OZExt:
		return fmt.Sprintf("((_ zero_extend %d) %s)", t.Sort.Width()-t.Args[0].Sort.Width(), j)
	case OSExt:
		return fmt.Sprintf("((_ sign_extend %d) %s)", t.Sort.Width()-t.Args[0].Sort.Width(), j)
	case OTrunc:
		return fmt.Sprintf("((_ extract %d 0) %s)", t.Sort.Width()-1, j)
	case OFFromS:
		return "((_ to_fp 11 53) RNE " + j + ")"
	case OFFromU:
		return "((_ to_fp_unsigned 11 53) RNE " + j + ")"
	case OFToS:
		return fmt.Sprintf("((_ fp.to_sbv %d) RTZ %s)", t.Sort.Width(), j)
	case OFToU:
		return fmt.Sprintf("((_ fp.to_ubv %d) RTZ %s)", t.Sort.Width(), j)
	}
	n, ok := opNames[t.Op]
	if !ok {
		panic(fmt.Sprintf("no smt name for op %d", t.Op))
	}
	return "(" + n + " " + j + ")"
}

// Script renders a self-contained query body (declarations, definitions, assertions) for the
// conjunction of the given assertions. extra terms are defined too (for get-value).
func (tb *Table) Script(asserts []*Term, extra []*Term) string {
	var sb strings.Builder
	seen := map[int]bool{}
	var order []*Term
	var visit func(t *Term)
	visit = func(t *Term) {
		if seen[t.ID] {
			return
		}
		seen[t.ID] = true
		for _, a := range t.Args {
			visit(a)
		}
		order = append(order, t)
	}
	for _, a := range asserts {
		visit(a)
	}
	for _, a := range extra {
		visit(a)
	}
	ufs := map[string]bool{}
	var ufNames []string
	for _, t := range order {
		if t.Op == OApp && !ufs[t.Name] {
			ufs[t.Name] = true
			ufNames = append(ufNames, t.Name)
		}
	}
	sort.Strings(ufNames)
	for _, n := range ufNames {
		d := tb.UFs[n]
		var as []string
		for _, s := range d.Args {
			as = append(as, s.SMT())
		}
		fmt.Fprintf(&sb, "(declare-fun %s (%s) %s)\n", n, strings.Join(as, " "), d.Ret.SMT())
	}
	for _, t := range order {
		switch t.Op {
		case OConst:
		case OSym:
			fmt.Fprintf(&sb, "(declare-const %s %s)\n", t.Name, t.Sort.SMT())
		default:
			fmt.Fprintf(&sb, "(define-fun t%d () %s %s)\n", t.ID, t.Sort.SMT(), exprSMT(t))
		}
	}
	for _, a := range asserts {
		fmt.Fprintf(&sb, "(assert %s)\n", ref(a))
	}
	return sb.String()
}

// Syms returns the symbols and UF applications reachable from the terms.
func Syms(ts []*Term) (syms []*Term, apps []*Term) {
	seen := map[int]bool{}
	var visit func(t *Term)
	visit = func(t *Term) {
		if seen[t.ID] {
			return
		}
		seen[t.ID] = true
		for _, a := range t.Args {
			visit(a)
		}
		switch t.Op {
		case OSym:
			syms = append(syms, t)
		case OApp:
			apps = append(apps, t)
		}
	}
	for _, t := range ts {
		visit(t)
	}
	return
}

// Eval evaluates t under a model (sym name -> bits; app key -> bits). Unknown symbols are 0.
type Model struct {
	Syms map[string]uint64
	Apps map[string]uint64 // key: name(arg bits,...)
}

func appKey(name string, args []uint64) string {
	var sb strings.Builder
	sb.WriteString(name)
	for _, a := range args {
		fmt.Fprintf(&sb, ",%x", a)
	}
	return sb.String()
}

// Eval returns the value bits of t under m; ok=false if an application is not in the model.
func (m *Model) Eval(t *Term, cache map[int]uint64) (uint64, bool) {
	if v, ok := cache[t.ID]; ok {
		return v, true
	}
	var as []uint64
	if t.Op != OIte && t.Op != OAnd && t.Op != OOr {
		for _, a := range t.Args {
			v, ok := m.Eval(a, cache)
			if !ok {
				return 0, false
			}
			as = append(as, v)
		}
	}
	b2u := func(b bool) uint64 {
		if b {
			return 1
		}
		return 0
	}
	var w int
	if len(t.Args) > 0 {
		w = t.Args[0].Sort.Width()
	}
	var r uint64
	switch t.Op {
	case OConst:
		r = t.Val
	case OSym:
		r = m.Syms[t.Name]
	case OApp:
		v, ok := m.Apps[appKey(t.Name, as)]
		if !ok {
			return 0, false
		}
		r = v
	case ONot:
		r = 1 - as[0]
	case OAnd:
		r = 1
		for _, a := range t.Args {
			v, ok := m.Eval(a, cache)
			if !ok {
				return 0, false
			}
			if v == 0 {
				r = 0
				break
			}
		}
	case OOr:
		r = 0
		for _, a := range t.Args {
			v, ok := m.Eval(a, cache)
			if !ok {
				return 0, false
			}
			if v == 1 {
				r = 1
				break
			}
		}
	case OIte:
		c, ok := m.Eval(t.Args[0], cache)
		if !ok {
			return 0, false
		}
		if c == 1 {
			r, ok = m.Eval(t.Args[1], cache)
		} else {
			r, ok = m.Eval(t.Args[2], cache)
		}
		if !ok {
			return 0, false
		}
	case OEq:
		r = b2u(as[0] == as[1])
	case OAdd:
		r = as[0] + as[1]
	case OSub:
		r = as[0] - as[1]
	case OMul:
		r = as[0] * as[1]
	case OSDiv:
		x, y := sext(as[0], w), sext(as[1], w)
		if y == 0 {
			if x >= 0 {
				r = ^uint64(0)
			} else {
				r = 1
			}
		} else if y == -1 {
			r = uint64(-x)
		} else {
			r = uint64(x / y)
		}
	case OUDiv:
		if as[1] == 0 {
			r = ^uint64(0)
		} else {
			r = as[0] / as[1]
		}
	case OSRem:
		x, y := sext(as[0], w), sext(as[1], w)
		if y == 0 {
			r = uint64(x)
		} else if y == -1 {
			r = 0
		} else {
			r = uint64(x % y)
		}
	case OURem:
		if as[1] == 0 {
			r = as[0]
		} else {
			r = as[0] % as[1]
		}
	case OBAnd:
		r = as[0] & as[1]
	case OBOr:
		r = as[0] | as[1]
	case OBXor:
		r = as[0] ^ as[1]
	case OShl:
		if as[1] >= uint64(w) {
			r = 0
		} else {
			r = as[0] << as[1]
		}
	case OLshr:
		if as[1] >= uint64(w) {
			r = 0
		} else {
			r = as[0] >> as[1]
		}
	case OAshr:
		y := as[1]
		if y >= uint64(w) {
			y = uint64(w - 1)
		}
		r = uint64(sext(as[0], w) >> y)
	case ONeg:
		r = -as[0]
	case OBNot:
		r = ^as[0]
	case OSlt:
		r = b2u(sext(as[0], w) < sext(as[1], w))
	case OSle:
		r = b2u(sext(as[0], w) <= sext(as[1], w))
	case OUlt:
		r = b2u(as[0] < as[1])
	case OUle:
		r = b2u(as[0] <= as[1])
	case OZExt, OTrunc:
		r = as[0]
	case OSExt:
		r = uint64(sext(as[0], w))
	case OFAdd:
		r = math.Float64bits(math.Float64frombits(as[0]) + math.Float64frombits(as[1]))
	case OFSub:
		r = math.Float64bits(math.Float64frombits(as[0]) - math.Float64frombits(as[1]))
	case OFMul:
		r = math.Float64bits(math.Float64frombits(as[0]) * math.Float64frombits(as[1]))
	case OFDiv:
		r = math.Float64bits(math.Float64frombits(as[0]) / math.Float64frombits(as[1]))
	case OFNeg:
		r = math.Float64bits(-math.Float64frombits(as[0]))
	case OFLt:
		r = b2u(math.Float64frombits(as[0]) < math.Float64frombits(as[1]))
	case OFLe:
		r = b2u(math.Float64frombits(as[0]) <= math.Float64frombits(as[1]))
	case OFEq:
		r = b2u(math.Float64frombits(as[0]) == math.Float64frombits(as[1]))
	case OFIsNaN:
		f := math.Float64frombits(as[0])
		r = b2u(f != f)
	case OFFromS:
		r = math.Float64bits(float64(sext(as[0], w)))
	case OFFromU:
		r = math.Float64bits(float64(as[0]))
	case OFToS:
		r = uint64(int64(math.Float64frombits(as[0])))
	case OFToU:
		r = uint64(math.Float64frombits(as[0]))
	case OFFloor:
		r = math.Float64bits(math.Floor(math.Float64frombits(as[0])))
	case OFCeil:
		r = math.Float64bits(math.Ceil(math.Float64frombits(as[0])))
	default:
		panic("eval: op")
	}
	if t.Sort == SBool {
		r &= 1
	} else if t.Sort != SF64 {
		r &= mask(t.Sort.Width())
	}
	cache[t.ID] = r
	return r, true
}

var _ = bits.Len
