package sym

import (
	"fmt"
	"os"
	"path/filepath"
	"sort"
	"strings"
	"time"
)

// Translator validation. The encoder is not trusted blindly: for a uniform sample of the paths each
// harness completed, the solver's model of the path condition is turned into concrete inputs and
// the SAME harness, compiled natively against the real build, is run on them. The native run must
// reach the end without a failed assertion or assumption and — where the run is deterministic —
// perform exactly as many assertions, nondeterministic reads and choices as the engine's path did.
// A disagreement means the engine's semantics of some instruction or stub differ from Go's.

type validationResult struct {
	Runs          int      `json:"native_runs"`
	Agreed        int      `json:"agreed"`
	NotComparable int      `json:"not_comparable_native_schedule_deviated"`
	Disagreements []string `json:"disagreements"`
	BuildS        float64  `json:"build_s"`
	Builds        int      `json:"native_builds"`
	Rule          string   `json:"rule"`
}

func validateWitnesses(opt CheckOptions, spec *PropertySpec, tier int, runs []*HarnessRun) *validationResult {
	res := &validationResult{Rule: "per harness a reservoir sample of completed paths; inputs = model of the path condition; native run of the same harness must print ZV: END with the engine's counts of assertions/nondet reads/choices (counts not compared when the path depends on map iteration order or a schedule: there only completion without a failed assertion is required)"}
	type group struct {
		hd, rel string
		md      nativeMode
		names   map[string]bool
		ws      []*Violation
	}
	groups := map[string]*group{}
	for _, h := range runs {
		for _, w := range h.Witnesses {
			if w == nil {
				continue
			}
			hd, rel, err := findHarnessDir(opt.Verif, w.Harness)
			if err != nil {
				continue
			}
			d := replayDoc{Harness: w.Harness, ID: w.ID, Nondet: w.Nondet, Fired: w.Fired, Sched: w.Sched}
			md := d.mode()
			k := fmt.Sprintf("%s|%v", hd, md)
			g := groups[k]
			if g == nil {
				g = &group{hd: hd, rel: rel, md: md, names: map[string]bool{}}
				groups[k] = g
			}
			g.names[w.Harness] = true
			g.ws = append(g.ws, w)
		}
	}
	var keys []string
	for k := range groups {
		keys = append(keys, k)
	}
	sort.Strings(keys)
	dir, err := os.MkdirTemp("", "gosym-witness-")
	if err != nil {
		return res
	}
	defer os.RemoveAll(dir)
	for _, k := range keys {
		g := groups[k]
		var names []string
		for n := range g.names {
			names = append(names, n)
		}
		sort.Strings(names)
		t0 := time.Now()
		bin, tmp, err := buildNative(opt.Repo, opt.Verif, g.hd, g.rel, names, g.md)
		res.BuildS += time.Since(t0).Seconds()
		res.Builds++
		if err != nil {
			res.Disagreements = append(res.Disagreements, fmt.Sprintf("%s: %v", k, err))
			if tmp != "" {
				os.RemoveAll(tmp)
			}
			continue
		}
		for i, w := range g.ws {
			path := filepath.Join(dir, fmt.Sprintf("w%d.json", i))
			writeReplayTo(path, spec.ID, tier, w)
			var extra []string
			if g.md.sched {
				extra = append(extra, "ZV_SCHED=guided")
			}
			out, _, timedOut := runNative(bin, w.Harness, path, 60*time.Second, extra...)
			if len(w.MapOrders) > 0 && !g.md.sched {
				// the native iteration order of a map cannot be steered; the model's values (clock
				// instants in particular) fit the engine's order: re-run until that order occurs
				for try := 0; try < 40 && !strings.Contains(out, "ZV: END"); try++ {
					out, _, timedOut = runNative(bin, w.Harness, path, 60*time.Second, extra...)
				}
			}
			res.Runs++
			want := fmt.Sprintf("ZV: END asserts=%d nondet=%d choices=%d", w.Expect.Asserts, w.Expect.Nondet, w.Expect.Choices)
			loose := g.md.sched || len(w.MapOrders) > 0
			ok := false
			switch {
			case g.md.sched && strings.Contains(out, "ZV: GUIDE deviated") && !strings.Contains(out, "ZV: END"):
				// the native decision points are not the engine's, so this run took another
				// interleaving; the model's clock instants are assigned to reads by position and do
				// not fit that interleaving: not comparable, neither agreement nor disagreement
				res.Runs--
				res.NotComparable++
				continue
			case timedOut:
			case strings.Contains(out, "ASSERT-FAIL") || strings.Contains(out, "ASSUME-FALSE") || strings.Contains(out, "divergence") || strings.Contains(out, "panic:"):
			case loose:
				ok = strings.Contains(out, "ZV: END")
			default:
				ok = strings.Contains(out, want)
			}
			if ok {
				res.Agreed++
			} else {
				o := strings.TrimSpace(out)
				if len(o) > 300 {
					o = o[len(o)-300:]
				}
				res.Disagreements = append(res.Disagreements, fmt.Sprintf("%s choices=%v: engine expects %q, native: %q", w.Harness, w.Choices, want, o))
			}
		}
		os.RemoveAll(tmp)
	}
	return res
}
