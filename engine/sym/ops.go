package sym

import (
	"fmt"
	"go/token"
	"go/types"

	"golang.org/x/tools/go/ssa"
)

const maxSliceLen = 64

func (r *Run) zero(t types.Type) Value {
	switch u := t.Underlying().(type) {
	case *types.Basic:
		switch {
		case u.Kind() == types.UnsafePointer:
			return Ptr{}
		case u.Info()&types.IsBoolean != 0:
			return r.TB.False
		case u.Info()&types.IsString != 0:
			return StringV{}
		case u.Info()&types.IsInteger != 0:
			w, _ := intInfo(u)
			return r.TB.Const(BVSort(w), 0)
		case u.Info()&types.IsFloat != 0:
			return r.TB.Float(0)
		case u.Kind() == types.UntypedNil, u.Kind() == types.Invalid:
			return nil
		}
	case *types.Pointer:
		return Ptr{}
	case *types.Slice:
		return SliceV{}
	case *types.Map:
		return (*MapObj)(nil)
	case *types.Chan:
		return (*ChanObj)(nil)
	case *types.Signature:
		return (*FuncV)(nil)
	case *types.Interface:
		return IfaceV{}
	case *types.Struct:
		s := &StructV{F: make([]Value, u.NumFields())}
		for i := range s.F {
			s.F[i] = r.zero(u.Field(i).Type())
		}
		return s
	case *types.Array:
		a := &ArrayV{E: make([]Value, u.Len())}
		z := r.zero(u.Elem())
		for i := range a.E {
			a.E[i] = z
		}
		return a
	case *types.Tuple:
		var tv TupleV
		for i := 0; i < u.Len(); i++ {
			tv = append(tv, r.zero(u.At(i).Type()))
		}
		return tv
	}
	r.unsupported("zero value of %s", t)
	return nil
}

func (r *Run) makeSlice(et types.Type, ln, cp int) SliceV {
	a := &ArrayV{E: make([]Value, cp)}
	z := r.zero(et)
	for i := range a.E {
		a.E[i] = z
	}
	o := r.newObject(a, nil)
	o.Typ = types.NewArray(et, int64(cp))
	return SliceV{Arr: o, Off: 0, Len: ln, Cap: cp}
}

// ---- memory ----

func walk(v Value, path []int) Value {
	for _, i := range path {
		switch x := v.(type) {
		case *StructV:
			v = x.F[i]
		case *ArrayV:
			v = x.E[i]
		default:
			panic(fmt.Sprintf("walk: cannot index %T", v))
		}
	}
	return v
}

func update(v Value, path []int, nv Value) Value {
	if len(path) == 0 {
		return nv
	}
	i := path[0]
	switch x := v.(type) {
	case *StructV:
		f := make([]Value, len(x.F))
		copy(f, x.F)
		f[i] = update(x.F[i], path[1:], nv)
		return &StructV{F: f}
	case *ArrayV:
		e := make([]Value, len(x.E))
		copy(e, x.E)
		e[i] = update(x.E[i], path[1:], nv)
		return &ArrayV{E: e}
	}
	panic(fmt.Sprintf("update: cannot index %T", v))
}

func (th *Thread) load(p Ptr, pos token.Pos) Value {
	if p.IsNil() {
		th.targetPanic("nil pointer dereference (load)", pos)
	}
	th.R.noteAccess(th, p, false, pos)
	return walk(p.Obj.V, p.Path)
}

func (th *Thread) store(p Ptr, v Value, pos token.Pos) {
	if p.IsNil() {
		th.targetPanic("nil pointer dereference (store)", pos)
	}
	th.R.noteAccess(th, p, true, pos)
	th.R.publish(p, v)
	p.Obj.V = update(p.Obj.V, p.Path, v)
}

// ---- operators ----

func (th *Thread) unop(fr *frame, in *ssa.UnOp) Value {
	r := th.R
	x := fr.get(in.X)
	switch in.Op {
	case token.MUL: // load
		return th.load(x.(Ptr), in.Pos())
	case token.NOT:
		return r.TB.Not(x.(*Term))
	case token.SUB:
		t := x.(*Term)
		if t.Sort == SF64 {
			return r.TB.FUn(OFNeg, t)
		}
		return r.TB.Neg(t)
	case token.XOR:
		return r.TB.BNot(x.(*Term))
	case token.ARROW:
		v, ok := th.chanRecv(x.(*ChanObj), in.Pos())
		if in.CommaOk {
			return TupleV{v, r.TB.Bool(ok)}
		}
		return v
	}
	r.unsupported("unop %s", in.Op)
	return nil
}

func basicOf(t types.Type) *types.Basic {
	b, _ := t.Underlying().(*types.Basic)
	return b
}

func (th *Thread) binop(op token.Token, xt types.Type, x, y Value, pos token.Pos) Value {
	r := th.R
	tb := r.TB
	switch op {
	case token.EQL:
		return r.equal(x, y)
	case token.NEQ:
		return tb.Not(r.equal(x, y))
	}
	switch a := x.(type) {
	case StringV:
		b := y.(StringV)
		if a.Opaque != nil || b.Opaque != nil {
			r.unsupported("operation %s on opaque string", op)
		}
		switch op {
		case token.ADD:
			nb := make([]*Term, 0, len(a.B)+len(b.B))
			nb = append(nb, a.B...)
			nb = append(nb, b.B...)
			return StringV{B: nb}
		case token.LSS:
			return r.strLess(a, b, false)
		case token.LEQ:
			return r.strLess(a, b, true)
		case token.GTR:
			return r.strLess(b, a, false)
		case token.GEQ:
			return r.strLess(b, a, true)
		}
	case *Term:
		b := y.(*Term)
		if a.Sort == SF64 {
			switch op {
			case token.ADD:
				return tb.FBin(OFAdd, a, b)
			case token.SUB:
				return tb.FBin(OFSub, a, b)
			case token.MUL:
				return tb.FBin(OFMul, a, b)
			case token.QUO:
				return tb.FBin(OFDiv, a, b)
			case token.LSS:
				return tb.FBin(OFLt, a, b)
			case token.LEQ:
				return tb.FBin(OFLe, a, b)
			case token.GTR:
				return tb.FBin(OFLt, b, a)
			case token.GEQ:
				return tb.FBin(OFLe, b, a)
			}
			r.unsupported("float binop %s", op)
		}
		if a.Sort == SBool {
			switch op {
			case token.AND, token.LAND:
				return tb.And(a, b)
			case token.OR, token.LOR:
				return tb.Or(a, b)
			}
			r.unsupported("bool binop %s", op)
		}
		bt := basicOf(xt)
		if bt == nil {
			r.unsupported("binop on %s", xt)
		}
		w, signed := intInfo(bt)
		_ = w
		switch op {
		case token.ADD:
			return tb.Bin(OAdd, a, b)
		case token.SUB:
			return tb.Bin(OSub, a, b)
		case token.MUL:
			return tb.Bin(OMul, a, b)
		case token.QUO, token.REM:
			zero := tb.Const(b.Sort, 0)
			if r.Branch(tb.Eq(b, zero)) {
				th.targetPanic("integer divide by zero", pos)
			}
			var o Op
			switch {
			case op == token.QUO && signed:
				o = OSDiv
			case op == token.QUO:
				o = OUDiv
			case signed:
				o = OSRem
			default:
				o = OURem
			}
			return tb.Bin(o, a, b)
		case token.AND:
			return tb.Bin(OBAnd, a, b)
		case token.OR:
			return tb.Bin(OBOr, a, b)
		case token.XOR:
			return tb.Bin(OBXor, a, b)
		case token.AND_NOT:
			return tb.Bin(OBAnd, a, tb.BNot(b))
		case token.SHL, token.SHR:
			// shift count: convert to the width of a
			cnt := b
			if cnt.Sort != a.Sort {
				if cnt.Sort.Width() > a.Sort.Width() {
					// saturate large counts
					wTerm := tb.Const(cnt.Sort, uint64(a.Sort.Width()))
					big := tb.Bin(OUle, wTerm, cnt)
					cnt = tb.Ite(big, tb.Const(a.Sort, uint64(a.Sort.Width())), tb.Resize(cnt, a.Sort.Width(), false))
				} else {
					cnt = tb.Resize(cnt, a.Sort.Width(), false)
				}
			}
			if op == token.SHL {
				return tb.Bin(OShl, a, cnt)
			}
			if signed {
				return tb.Bin(OAshr, a, cnt)
			}
			return tb.Bin(OLshr, a, cnt)
		case token.LSS:
			if signed {
				return tb.Bin(OSlt, a, b)
			}
			return tb.Bin(OUlt, a, b)
		case token.LEQ:
			if signed {
				return tb.Bin(OSle, a, b)
			}
			return tb.Bin(OUle, a, b)
		case token.GTR:
			if signed {
				return tb.Bin(OSlt, b, a)
			}
			return tb.Bin(OUlt, b, a)
		case token.GEQ:
			if signed {
				return tb.Bin(OSle, b, a)
			}
			return tb.Bin(OUle, b, a)
		}
	}
	r.unsupported("binop %s on %T", op, x)
	return nil
}

func (r *Run) strLess(a, b StringV, orEq bool) *Term {
	tb := r.TB
	// lexicographic: build from the end
	n := len(a.B)
	if len(b.B) < n {
		n = len(b.B)
	}
	var res *Term
	if orEq {
		res = tb.Bool(len(a.B) <= len(b.B))
	} else {
		res = tb.Bool(len(a.B) < len(b.B))
	}
	for i := n - 1; i >= 0; i-- {
		lt := tb.Bin(OUlt, a.B[i], b.B[i])
		eq := tb.Eq(a.B[i], b.B[i])
		res = tb.Or(lt, tb.And(eq, res))
	}
	return res
}

func (r *Run) equal(x, y Value) *Term {
	tb := r.TB
	switch a := x.(type) {
	case nil:
		return tb.Bool(y == nil)
	case *Term:
		b := y.(*Term)
		if a.Sort == SF64 {
			return tb.FBin(OFEq, a, b)
		}
		return tb.Eq(a, b)
	case Ptr:
		return tb.Bool(ptrEq(a, y.(Ptr)))
	case StringV:
		b := y.(StringV)
		if a.Opaque != nil || b.Opaque != nil {
			r.unsupported("comparison of opaque strings")
		}
		if len(a.B) != len(b.B) {
			return tb.False
		}
		cs := make([]*Term, len(a.B))
		for i := range a.B {
			cs[i] = tb.Eq(a.B[i], b.B[i])
		}
		return tb.And(cs...)
	case *StructV:
		b := y.(*StructV)
		cs := make([]*Term, len(a.F))
		for i := range a.F {
			cs[i] = r.equal(a.F[i], b.F[i])
		}
		return tb.And(cs...)
	case *ArrayV:
		b := y.(*ArrayV)
		cs := make([]*Term, len(a.E))
		for i := range a.E {
			cs[i] = r.equal(a.E[i], b.E[i])
		}
		return tb.And(cs...)
	case IfaceV:
		b := y.(IfaceV)
		if a.T == nil || b.T == nil {
			return tb.Bool(a.T == nil && b.T == nil)
		}
		if !identicalDyn(a.T, b.T) {
			return tb.False
		}
		if a.T == opaqueErrorType {
			return tb.Bool(a.V.(*opaqueErr) == b.V.(*opaqueErr))
		}
		return r.equal(a.V, b.V)
	case *MapObj:
		b := y.(*MapObj)
		return tb.Bool(a == b)
	case *ChanObj:
		return tb.Bool(a == y.(*ChanObj))
	case *FuncV:
		b := y.(*FuncV)
		if a == nil || b == nil {
			return tb.Bool(a == nil && b == nil)
		}
		r.unsupported("comparison of non-nil funcs")
	case SliceV:
		b := y.(SliceV)
		if a.Arr == nil || b.Arr == nil {
			return tb.Bool(a.Arr == nil && b.Arr == nil)
		}
		r.unsupported("comparison of non-nil slices")
	}
	r.unsupported("equality on %T", x)
	return nil
}

func identicalDyn(a, b types.Type) bool {
	if _, ok := a.(*engineType); ok {
		return a == b
	}
	if _, ok := b.(*engineType); ok {
		return false
	}
	return types.Identical(a, b)
}

// ---- conversions ----

func (th *Thread) conv(dst, src types.Type, x Value, pos token.Pos) Value {
	r := th.R
	tb := r.TB
	ud, us := dst.Underlying(), src.Underlying()
	switch d := ud.(type) {
	case *types.Basic:
		if d.Kind() == types.UnsafePointer {
			return x
		}
		switch {
		case d.Info()&types.IsInteger != 0:
			dw, _ := intInfo(d)
			t := x.(*Term)
			if t.Sort == SF64 {
				_, ds := intInfo(d)
				return tb.FToInt(t, dw, ds)
			}
			sb := basicOf(src)
			_, ss := intInfo(sb)
			return tb.Resize(t, dw, ss)
		case d.Info()&types.IsFloat != 0:
			t := x.(*Term)
			if t.Sort == SF64 {
				if d.Kind() == types.Float32 && basicOf(src).Kind() != types.Float32 {
					r.unsupported("float64 -> float32 conversion")
				}
				return t
			}
			_, ss := intInfo(basicOf(src))
			if d.Kind() == types.Float32 {
				r.unsupported("int -> float32 conversion")
			}
			return tb.FFromInt(t, ss)
		case d.Info()&types.IsString != 0:
			switch s := us.(type) {
			case *types.Basic:
				if s.Info()&types.IsString != 0 {
					return x
				}
				if s.Info()&types.IsInteger != 0 {
					// string(rune)
					t := x.(*Term)
					_, ss := intInfo(s)
					return StringV{B: r.encodeRune(tb.Resize(t, 32, ss))}
				}
			case *types.Slice:
				sl := x.(SliceV)
				eb := basicOf(s.Elem())
				var out []*Term
				for i := 0; i < sl.Len; i++ {
					e := r.sliceElem(sl, i).(*Term)
					if eb.Kind() == types.Uint8 {
						out = append(out, e)
					} else {
						out = append(out, r.encodeRune(e)...)
					}
				}
				return StringV{B: out}
			}
		}
	case *types.Slice:
		if sb, ok := us.(*types.Basic); ok && sb.Info()&types.IsString != 0 {
			s := x.(StringV)
			if s.Opaque != nil {
				r.unsupported("conversion of opaque string to slice")
			}
			eb := basicOf(d.Elem())
			if eb.Kind() == types.Uint8 {
				sl := r.makeSlice(d.Elem(), len(s.B), len(s.B))
				arr := sl.Arr.V.(*ArrayV)
				for i, b := range s.B {
					arr.E[i] = b
				}
				return sl
			}
			// []rune(string)
			var runes []*Term
			for i := 0; i < len(s.B); {
				rn, w := r.decodeRune(s, i)
				runes = append(runes, rn)
				i += w
			}
			sl := r.makeSlice(d.Elem(), len(runes), len(runes))
			arr := sl.Arr.V.(*ArrayV)
			for i, b := range runes {
				arr.E[i] = b
			}
			return sl
		}
		return x
	default:
		return x // pointer/named conversions preserve representation
	}
	r.unsupported("conversion %s -> %s", src, dst)
	return nil
}

// encodeRune returns the UTF-8 encoding of a 32-bit rune term, forking on its size class.
func (r *Run) encodeRune(rn *Term) []*Term {
	tb := r.TB
	c := func(v int64) *Term { return tb.Int(32, v) }
	b8 := func(t *Term) *Term { return tb.Resize(t, 8, false) }
	if r.Branch(tb.Bin(OUlt, rn, c(0x80))) {
		return []*Term{b8(rn)}
	}
	if r.Branch(tb.Bin(OUlt, rn, c(0x800))) {
		return []*Term{
			b8(tb.Bin(OBOr, c(0xC0), tb.Bin(OLshr, rn, c(6)))),
			b8(tb.Bin(OBOr, c(0x80), tb.Bin(OBAnd, rn, c(0x3F)))),
		}
	}
	// invalid: surrogates or > MaxRune (incl. negative) -> U+FFFD
	surr := tb.And(tb.Bin(OUle, c(0xD800), rn), tb.Bin(OUle, rn, c(0xDFFF)))
	big := tb.Bin(OUlt, c(0x10FFFF), rn)
	if r.Branch(tb.Or(surr, big)) {
		return []*Term{tb.Const(SBV8, 0xEF), tb.Const(SBV8, 0xBF), tb.Const(SBV8, 0xBD)}
	}
	if r.Branch(tb.Bin(OUlt, rn, c(0x10000))) {
		return []*Term{
			b8(tb.Bin(OBOr, c(0xE0), tb.Bin(OLshr, rn, c(12)))),
			b8(tb.Bin(OBOr, c(0x80), tb.Bin(OBAnd, tb.Bin(OLshr, rn, c(6)), c(0x3F)))),
			b8(tb.Bin(OBOr, c(0x80), tb.Bin(OBAnd, rn, c(0x3F)))),
		}
	}
	return []*Term{
		b8(tb.Bin(OBOr, c(0xF0), tb.Bin(OLshr, rn, c(18)))),
		b8(tb.Bin(OBOr, c(0x80), tb.Bin(OBAnd, tb.Bin(OLshr, rn, c(12)), c(0x3F)))),
		b8(tb.Bin(OBOr, c(0x80), tb.Bin(OBAnd, tb.Bin(OLshr, rn, c(6)), c(0x3F)))),
		b8(tb.Bin(OBOr, c(0x80), tb.Bin(OBAnd, rn, c(0x3F)))),
	}
}

// decodeRune decodes the rune starting at byte i of s (UTF-8, Go semantics), forking on the lead
// byte class. Lead bytes >= 0xE0 (3- and 4-byte forms) are handled for well-formedness classes too.
func (r *Run) decodeRune(s StringV, i int) (*Term, int) {
	tb := r.TB
	b0 := s.B[i]
	c8 := func(v uint64) *Term { return tb.Const(SBV8, v) }
	z32 := func(t *Term) *Term { return tb.Resize(t, 32, false) }
	runeErr := tb.Int(32, 0xFFFD)
	if r.Branch(tb.Bin(OUlt, b0, c8(0x80))) {
		return z32(b0), 1
	}
	cont := func(j int) *Term { // is s[j] a continuation byte
		if j >= len(s.B) {
			return tb.False
		}
		return tb.And(tb.Bin(OUle, c8(0x80), s.B[j]), tb.Bin(OUle, s.B[j], c8(0xBF)))
	}
	two := tb.And(tb.Bin(OUle, c8(0xC2), b0), tb.Bin(OUle, b0, c8(0xDF)))
	if r.Branch(two) {
		if i+1 < len(s.B) && r.Branch(cont(i+1)) {
			v := tb.Bin(OBOr, tb.Bin(OShl, tb.Bin(OBAnd, z32(b0), tb.Int(32, 0x1F)), tb.Int(32, 6)),
				tb.Bin(OBAnd, z32(s.B[i+1]), tb.Int(32, 0x3F)))
			return v, 2
		}
		return runeErr, 1
	}
	if r.Branch(tb.Bin(OUlt, b0, c8(0xE0))) { // 0x80..0xC1
		return runeErr, 1
	}
	three := tb.Bin(OUle, b0, c8(0xEF))
	if r.Branch(three) {
		if i+2 < len(s.B) {
			// second byte range depends on lead: E0: A0..BF, ED: 80..9F, else 80..BF
			b1 := s.B[i+1]
			lo := tb.Ite(tb.Eq(b0, c8(0xE0)), c8(0xA0), c8(0x80))
			hi := tb.Ite(tb.Eq(b0, c8(0xED)), c8(0x9F), c8(0xBF))
			ok := tb.And(tb.Bin(OUle, lo, b1), tb.Bin(OUle, b1, hi), cont(i+2))
			if r.Branch(ok) {
				v := tb.Bin(OBOr, tb.Bin(OBOr,
					tb.Bin(OShl, tb.Bin(OBAnd, z32(b0), tb.Int(32, 0x0F)), tb.Int(32, 12)),
					tb.Bin(OShl, tb.Bin(OBAnd, z32(b1), tb.Int(32, 0x3F)), tb.Int(32, 6))),
					tb.Bin(OBAnd, z32(s.B[i+2]), tb.Int(32, 0x3F)))
				return v, 3
			}
		}
		return runeErr, 1
	}
	four := tb.Bin(OUle, b0, c8(0xF4))
	if r.Branch(four) {
		if i+3 < len(s.B) {
			b1 := s.B[i+1]
			lo := tb.Ite(tb.Eq(b0, c8(0xF0)), c8(0x90), c8(0x80))
			hi := tb.Ite(tb.Eq(b0, c8(0xF4)), c8(0x8F), c8(0xBF))
			ok := tb.And(tb.Bin(OUle, lo, b1), tb.Bin(OUle, b1, hi), cont(i+2), cont(i+3))
			if r.Branch(ok) {
				v := tb.Bin(OBOr, tb.Bin(OBOr, tb.Bin(OBOr,
					tb.Bin(OShl, tb.Bin(OBAnd, z32(b0), tb.Int(32, 0x07)), tb.Int(32, 18)),
					tb.Bin(OShl, tb.Bin(OBAnd, z32(b1), tb.Int(32, 0x3F)), tb.Int(32, 12))),
					tb.Bin(OShl, tb.Bin(OBAnd, z32(s.B[i+2]), tb.Int(32, 0x3F)), tb.Int(32, 6))),
					tb.Bin(OBAnd, z32(s.B[i+3]), tb.Int(32, 0x3F)))
				return v, 4
			}
		}
		return runeErr, 1
	}
	return runeErr, 1
}

// ---- slices, indexing ----

func (r *Run) sliceElem(s SliceV, i int) Value {
	return walk(s.Arr.V, s.Base).(*ArrayV).E[s.Off+i]
}

// idx resolves an index term against a length: panics (target) when out of range is feasible.
func (th *Thread) idx(t *Term, n int, pos token.Pos, what string) int {
	r := th.R
	tb := r.TB
	if t.IsConst() {
		v := t.SInt()
		if v < 0 || v >= int64(n) {
			th.targetPanic(fmt.Sprintf("%s out of range [%d] with length %d", what, v, n), pos)
		}
		return int(v)
	}
	w := t.Sort.Width()
	in := tb.And(tb.Bin(OSle, tb.Int(w, 0), t), tb.Bin(OSlt, t, tb.Int(w, int64(n))))
	if !r.Branch(in) {
		th.targetPanic(fmt.Sprintf("%s out of range with length %d", what, n), pos)
	}
	return int(r.Concretize(t, 0, int64(n-1), true, what))
}

func (th *Thread) indexAddr(fr *frame, in *ssa.IndexAddr) Value {
	x := fr.get(in.X)
	it := th.toInt64Term(fr.get(in.Index).(*Term), in.Index.Type())
	switch a := x.(type) {
	case SliceV:
		i := th.idx(it, a.Len, in.Pos(), "index")
		return a.elemPtr(i)
	case Ptr: // *array
		if a.IsNil() {
			th.targetPanic("nil pointer dereference (index)", in.Pos())
		}
		n := int(in.X.Type().Underlying().(*types.Pointer).Elem().Underlying().(*types.Array).Len())
		i := th.idx(it, n, in.Pos(), "index")
		return a.Sub(i)
	}
	th.R.unsupported("IndexAddr on %T", x)
	return nil
}

func (th *Thread) toInt64Term(t *Term, typ types.Type) *Term {
	if t.Sort == SBV64 {
		return t
	}
	_, signed := intInfo(basicOf(typ))
	return th.R.TB.Resize(t, 64, signed)
}

func (th *Thread) index(fr *frame, in *ssa.Index) Value {
	x := fr.get(in.X)
	it := th.toInt64Term(fr.get(in.Index).(*Term), in.Index.Type())
	switch a := x.(type) {
	case *ArrayV:
		i := th.idx(it, len(a.E), in.Pos(), "index")
		return a.E[i]
	case StringV:
		if a.Opaque != nil {
			th.R.unsupported("index of opaque string")
		}
		i := th.idx(it, len(a.B), in.Pos(), "string index")
		return a.B[i]
	}
	th.R.unsupported("Index on %T", x)
	return nil
}

func (th *Thread) sliceOp(fr *frame, in *ssa.Slice) Value {
	r := th.R
	x := fr.get(in.X)
	var ln, cp int
	var str StringV
	var sl SliceV
	var arrPtr Ptr
	kind := 0
	switch a := x.(type) {
	case SliceV:
		sl = a
		ln, cp = a.Len, a.Cap
	case StringV:
		if a.Opaque != nil {
			r.unsupported("slice of opaque string")
		}
		str = a
		ln, cp = len(a.B), len(a.B)
		kind = 1
	case Ptr:
		if a.IsNil() {
			th.targetPanic("nil pointer dereference (slice of array)", in.Pos())
		}
		arrPtr = a
		n := int(in.X.Type().Underlying().(*types.Pointer).Elem().Underlying().(*types.Array).Len())
		ln, cp = n, n
		kind = 2
	default:
		r.unsupported("Slice on %T", x)
	}
	bound := func(v ssa.Value, def int, lo, hi int, what string) int {
		if v == nil {
			return def
		}
		t := th.toInt64Term(fr.get(v).(*Term), v.Type())
		if t.IsConst() {
			c := t.SInt()
			if c < int64(lo) || c > int64(hi) {
				th.targetPanic(fmt.Sprintf("slice bounds out of range [%s %d] (allowed %d..%d)", what, c, lo, hi), in.Pos())
			}
			return int(c)
		}
		tb := r.TB
		ok := tb.And(tb.Bin(OSle, tb.Int(64, int64(lo)), t), tb.Bin(OSle, t, tb.Int(64, int64(hi))))
		if !r.Branch(ok) {
			th.targetPanic(fmt.Sprintf("slice bounds out of range [%s] (allowed %d..%d)", what, lo, hi), in.Pos())
		}
		return int(r.Concretize(t, int64(lo), int64(hi), true, "slice bound"))
	}
	// Go evaluates: 0 <= low <= high <= max <= cap
	mx := bound(in.Max, cp, 0, cp, "max")
	hiDefault := ln
	hiLimit := mx
	if kind == 1 {
		hiLimit = ln
	}
	hi := bound(in.High, hiDefault, 0, hiLimit, "high")
	lo := bound(in.Low, 0, 0, hi, "low")
	switch kind {
	case 1:
		return StringV{B: str.B[lo:hi]}
	case 2:
		// slice of array object: need the array object as backing store. If the pointer addresses
		// a whole object we can share it; otherwise unsupported.
		if len(arrPtr.Path) != 0 {
			// an array that is a field or element of another object (n.children[a:b]): the slice
			// refers to it in place through the path
			return SliceV{Arr: arrPtr.Obj, Base: append([]int(nil), arrPtr.Path...), Off: lo, Len: hi - lo, Cap: mx - lo}
		}
		return SliceV{Arr: arrPtr.Obj, Off: lo, Len: hi - lo, Cap: mx - lo}
	}
	if sl.Arr == nil {
		// nil slice: only [0:0]
		return SliceV{}
	}
	return SliceV{Arr: sl.Arr, Base: sl.Base, Off: sl.Off + lo, Len: hi - lo, Cap: mx - lo}
}

// growCap mimics gc's append growth (runtime.growslice + size classes) for small slices.
func (r *Run) growCap(oldCap, needed int, et types.Type) int {
	newcap := oldCap
	doublecap := newcap + newcap
	if needed > doublecap {
		newcap = needed
	} else {
		const threshold = 256
		if oldCap < threshold {
			newcap = doublecap
		} else {
			for newcap < needed {
				newcap += (newcap + 3*threshold) / 4
			}
		}
	}
	es := int(r.E.Sizes.Sizeof(et))
	if es == 0 {
		return newcap
	}
	bytes := newcap * es
	classes := []int{8, 16, 24, 32, 48, 64, 80, 96, 112, 128, 144, 160, 176, 192, 208, 224, 240, 256, 288, 320, 352, 384, 416, 448, 480, 512, 576, 640, 704, 768, 896, 1024, 1152, 1280, 1408, 1536, 1792, 2048}
	for _, c := range classes {
		if bytes <= c {
			return c / es
		}
	}
	return newcap
}

func (th *Thread) doAppend(s SliceV, elems []Value, et types.Type, pos token.Pos) SliceV {
	r := th.R
	n := len(elems)
	if n == 0 {
		return s
	}
	if s.Arr != nil && s.Len+n <= s.Cap {
		for i, e := range elems {
			th.store(s.elemPtr(s.Len+i), e, pos)
		}
		return SliceV{Arr: s.Arr, Base: s.Base, Off: s.Off, Len: s.Len + n, Cap: s.Cap}
	}
	nc := r.growCap(s.Cap, s.Len+n, et)
	if nc > maxSliceLen*4 {
		r.end("bound", "append grows slice beyond engine bound")
	}
	ns := r.makeSlice(et, s.Len+n, nc)
	arr := ns.Arr.V.(*ArrayV)
	for i := 0; i < s.Len; i++ {
		if s.Arr.Shared {
			r.noteAccess(th, s.elemPtr(i), false, pos)
		}
		arr.E[i] = r.sliceElem(s, i)
	}
	for i, e := range elems {
		arr.E[s.Len+i] = e
	}
	return ns
}

func (th *Thread) sliceValues(s SliceV, pos token.Pos) []Value {
	out := make([]Value, s.Len)
	for i := 0; i < s.Len; i++ {
		if s.Arr.Shared {
			th.R.noteAccess(th, s.elemPtr(i), false, pos)
		}
		out[i] = th.R.sliceElem(s, i)
	}
	return out
}

// ---- type assertions ----

func (th *Thread) typeAssert(in *ssa.TypeAssert, x IfaceV) Value {
	r := th.R
	var ok bool
	var v Value
	if it, isIface := in.AssertedType.Underlying().(*types.Interface); isIface {
		if x.T != nil {
			if _, special := x.T.(*engineType); special {
				// opaque errors implement error only
				ok = x.T == opaqueErrorType && isErrorLike(it)
			} else {
				ok = types.Implements(x.T, it)
			}
		}
		v = x
	} else {
		ok = x.T != nil && identicalDyn(x.T, in.AssertedType)
		v = x.V
	}
	if in.CommaOk {
		if !ok {
			v = r.zero(in.AssertedType)
		}
		return TupleV{v, r.TB.Bool(ok)}
	}
	if !ok {
		th.targetPanic(fmt.Sprintf("interface conversion: %v is not %s", x.T, in.AssertedType), in.Pos())
	}
	return v
}

func isErrorLike(it *types.Interface) bool {
	if it.NumMethods() == 0 {
		return true
	}
	return it.NumMethods() == 1 && it.Method(0).Name() == "Error"
}
