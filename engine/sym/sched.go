package sym

import (
	"fmt"
	"go/token"
	"strings"

	"golang.org/x/tools/go/ssa"
)

// ---- threads and baton passing ----

func (r *Run) spawn(entry func(*Thread), inPar bool) *Thread {
	th := &Thread{R: r, ID: len(r.threads), resume: make(chan struct{}, 1), entry: entry, held: map[string]int{}, inPar: inPar}
	r.threads = append(r.threads, th)
	return th
}


func (th *Thread) wake() {
	r := th.R
	r.cur = th
	if !th.started {
		th.started = true
		r.wg.Add(1)
		go func() {
			defer r.wg.Done()
			defer func() {
				rec := recover()
				if rec == nil {
					return
				}
				switch p := rec.(type) {
				case pathEnd:
					if p.Kind != "dead" && !r.dead {
						r.killFrom(th, &p)
					}
				case *goPanic:
					if !r.dead {
						th.panicked = p
						pe := pathEnd{Kind: "goroutine-panic", Msg: p.Msg + " at " + r.E.Pos(p.Pos)}
						r.uncaught = p
						r.killFrom(th, &pe)
					}
				default:
					if !r.dead {
						pe := pathEnd{Kind: "engine-bug", Msg: fmt.Sprint(rec)}
						r.killFrom(th, &pe)
					}
				}
			}()
			th.entry(th)
			th.done = true
			r.threadExit(th)
		}()
		return
	}
	th.resume <- struct{}{}
}

func (th *Thread) park() {
	<-th.resume
	if th.R.dead {
		if th.ID == 0 && th.R.deadReason != nil {
			panic(*th.R.deadReason)
		}
		panic(pathEnd{Kind: "dead"})
	}
}

// killFrom ends the path from a non-main thread: hand the reason to the main thread.
func (r *Run) killFrom(th *Thread, pe *pathEnd) {
	r.dead = true
	r.deadReason = pe
	if th != r.threads[0] {
		r.threads[0].resume <- struct{}{}
	}
}

func (th *Thread) enabled() bool {
	if th.done {
		return false
	}
	if th.waiting == nil {
		return true
	}
	return th.waiting()
}

// pick chooses the next thread to run among enabled ones. In Par mode this is an explored decision;
// otherwise prefer the current thread, then the lowest id.
func (r *Run) pick(cur *Thread, curRunnable bool) *Thread {
	var en []*Thread
	for _, t := range r.threads {
		if t == cur {
			if curRunnable && t.enabled() {
				en = append(en, t)
			}
			continue
		}
		if t.enabled() {
			en = append(en, t)
		}
	}
	if len(en) == 0 {
		return nil
	}
	if r.parDepth == 0 {
		for _, t := range en {
			if t == cur {
				return t
			}
		}
		return en[0]
	}
	// A forced switch (the current thread blocked or finished) to a thread whose pending steps are
	// invisible to the others (fresh goroutine, woken from a private channel, the joining main
	// thread) needs no choice: that thread reaches a scheduling point before its next visible
	// operation, where every enabled thread is offered again.
	if !curRunnable && r.shareUsed {
		for _, t := range en {
			if !t.pendVis {
				return t
			}
		}
	}
	// concurrency mode: only threads participating in Par (and helper threads they spawned) are
	// scheduled freely; order the candidates deterministically.
	if curRunnable && cur.enabled() && r.bound() >= 0 && r.preempts >= r.bound() {
		return cur
	}
	i := r.Choice(len(en))
	t := en[i]
	r.sched = append(r.sched, t.ID)
	if curRunnable && cur.enabled() && t != cur {
		r.preempts++
	}
	return t
}

// bound is the pre-emption bound in force: the harness's own (vrt.PreemptBound) or the property's.
func (r *Run) bound() int {
	if r.preemptSet {
		return r.preemptBound
	}
	return r.E.PreemptBound
}

// lockYield: acquiring a mutex is a visible operation unless the mutex is thread-local (the harness
// declared the shared instance with vrt.Share and this mutex is not reachable from it), in which
// case no other thread can observe or be affected by the acquisition.
func (th *Thread) lockYield(p Ptr) {
	if th.R.shareUsed && p.Obj != nil && !p.Obj.Shared {
		return
	}
	th.yield()
}

// yield is a scheduling point at which the current thread remains runnable.
func (th *Thread) yield() {
	r := th.R
	if r.parDepth == 0 {
		return
	}
	next := r.pick(th, true)
	if next == nil || next == th {
		return
	}
	th.pendVis = true
	next.wake()
	th.park()
	th.pendVis = false
}

// privYield is the scheduling point before an operation on a channel: not needed when the
// channel is private to the calling thread's family (not reachable from the shared instance).
func (th *Thread) chanYield(c *ChanObj) {
	if th.R.shareUsed && c != nil && !c.Shared {
		return
	}
	th.yield()
}

// block suspends the thread until pred holds.
func (th *Thread) block(why string, pred func() bool) {
	r := th.R
	if pred() {
		return
	}
	th.waiting = pred
	th.waitWhy = why
	th.pendVis = !(strings.HasPrefix(why, "priv ") || why == "Par")
	next := r.pick(th, false)
	if next == nil {
		r.deadlock(th)
	}
	next.wake()
	th.park()
	th.waiting = nil
	th.waitWhy = ""
	th.pendVis = false
}

func (r *Run) deadlock(th *Thread) {
	var why []string
	for _, t := range r.threads {
		if !t.done {
			why = append(why, fmt.Sprintf("T%d:%s", t.ID, t.waitWhy))
		}
	}
	r.violation("deadlock", fmt.Sprintf("deadlock: no runnable thread (%v)", why), token.NoPos)
	r.end("deadlock", "deadlock %v", why)
}

// threadExit passes the baton on when a non-main thread finishes.
func (r *Run) threadExit(th *Thread) {
	if r.dead {
		return
	}
	next := r.pick(th, false)
	if next == nil {
		// nobody can run: the main thread must be blocked forever
		pe := pathEnd{Kind: "deadlock", Msg: "all threads blocked after thread exit"}
		r.violation("deadlock", "deadlock: all remaining threads blocked", token.NoPos)
		r.killFrom(th, &pe)
		return
	}
	next.wake()
}

// quiesce runs the remaining runnable threads after the main thread finished the harness.
func (r *Run) quiesce(main *Thread) {
	for {
		var next *Thread
		for _, t := range r.threads {
			if t != main && t.enabled() {
				next = t
				break
			}
		}
		if next == nil {
			return
		}
		main.waiting = func() bool {
			for _, t := range r.threads {
				if t != main && t.enabled() {
					return false
				}
			}
			return true
		}
		main.waitWhy = "quiesce"
		next.wake()
		main.park()
		main.waiting = nil
	}
}

// ---- locks ----

type lockState struct {
	writer  *Thread
	readers map[*Thread]int
	pending int
	class   string
}

func (r *Run) lockOf(p Ptr) *lockState {
	k := p.Key()
	ls, ok := r.locks[k]
	if !ok {
		ls = &lockState{readers: map[*Thread]int{}, class: r.cellClass(p)}
		r.locks[k] = ls
	}
	return ls
}

func (th *Thread) lock(p Ptr, pos token.Pos) {
	if p.IsNil() {
		th.targetPanic("nil mutex", pos)
	}
	ls := th.R.lockOf(p)
	th.lastFree = nil
	th.lockYield(p)
	ls.pending++
	th.block("Lock "+ls.class, func() bool { return ls.writer == nil && len(ls.readers) == 0 })
	ls.pending--
	ls.writer = th
	th.held[p.Key()] = 2
}

func (th *Thread) unlock(p Ptr, pos token.Pos) {
	ls := th.R.lockOf(p)
	if ls.writer == nil {
		th.fatal("sync: unlock of unlocked mutex", pos)
	}
	// Go permits unlocking from another goroutine; we model ownership transfer faithfully.
	if ls.writer != nil {
		delete(ls.writer.held, p.Key())
	}
	ls.writer = nil
	th.lastFree = nil
}

func (th *Thread) rlock(p Ptr, pos token.Pos) {
	ls := th.R.lockOf(p)
	th.lastFree = nil
	th.lockYield(p)
	th.block("RLock "+ls.class, func() bool { return ls.writer == nil && ls.pending == 0 })
	ls.readers[th]++
	th.held[p.Key()] = 1
}

func (th *Thread) runlock(p Ptr, pos token.Pos) {
	ls := th.R.lockOf(p)
	th.lastFree = nil
	if ls.readers[th] == 0 {
		// RUnlock by a thread that holds no read lock: if someone else holds one Go allows it;
		// otherwise fatal.
		var other *Thread
		for t := range ls.readers {
			other = t
			break
		}
		if other == nil {
			th.fatal("sync: RUnlock of unlocked RWMutex", pos)
		}
		ls.readers[other]--
		if ls.readers[other] == 0 {
			delete(ls.readers, other)
			delete(other.held, p.Key())
		}
		return
	}
	ls.readers[th]--
	if ls.readers[th] == 0 {
		delete(ls.readers, th)
		delete(th.held, p.Key())
	}
}

// fatal models an unrecoverable runtime fatal error (not a panic).
func (th *Thread) fatal(msg string, pos token.Pos) {
	th.R.violation("fatal", "fatal error: "+msg+" at "+th.R.E.Pos(pos), pos)
	th.R.end("fatal", msg)
}

// ---- WaitGroup / Cond ----

type wgState struct{ n int64 }
type condWaiter struct{ signalled bool }
type condState struct{ waiters []*condWaiter }

func (r *Run) wgOf(p Ptr) *wgState {
	k := p.Key()
	w, ok := r.wgs[k]
	if !ok {
		w = &wgState{}
		r.wgs[k] = w
	}
	return w
}

func (r *Run) condOf(p Ptr) *condState {
	k := p.Key()
	c, ok := r.conds[k]
	if !ok {
		c = &condState{}
		r.conds[k] = c
	}
	return c
}

// ---- channels ----

type sendReq struct {
	v     Value
	taken bool
}

func (th *Thread) chanSend(c *ChanObj, v Value, pos token.Pos) {
	if c == nil {
		th.block("send on nil chan", func() bool { return false })
	}
	th.chanYield(c)
	if c.Closed {
		th.targetPanic("send on closed channel", pos)
	}
	pv := ""
	if th.R.shareUsed && !c.Shared {
		pv = "priv "
	}
	if c.Cap > 0 {
		th.block(pv+"chan send (full)", func() bool { return len(c.Buf) < c.Cap || c.Closed })
		if c.Closed {
			th.targetPanic("send on closed channel", pos)
		}
		c.Buf = append(c.Buf, v)
		return
	}
	req := &sendReq{v: v}
	c.sendq = append(c.sendq, req)
	th.block(pv+"chan send", func() bool { return req.taken || c.Closed })
	if !req.taken {
		th.targetPanic("send on closed channel", pos)
	}
}

func (c *ChanObj) recvReady() bool {
	return len(c.Buf) > 0 || c.pendingSend() != nil || c.Closed
}

func (c *ChanObj) pendingSend() *sendReq {
	for _, q := range c.sendq {
		if !q.taken {
			return q
		}
	}
	return nil
}

func (c *ChanObj) take() (Value, bool) {
	if len(c.Buf) > 0 {
		v := c.Buf[0]
		c.Buf = c.Buf[1:]
		return v, true
	}
	if q := c.pendingSend(); q != nil {
		q.taken = true
		// compact queue
		var nq []*sendReq
		for _, x := range c.sendq {
			if !x.taken {
				nq = append(nq, x)
			}
		}
		c.sendq = nq
		return q.v, true
	}
	return nil, false
}

func (th *Thread) chanRecv(c *ChanObj, pos token.Pos) (Value, bool) {
	if c == nil {
		th.block("recv on nil chan", func() bool { return false })
	}
	th.chanYield(c)
	if !c.recvReady() {
		if tm := th.timerForChan(c); tm != nil {
			th.fire(nil, pos, tm)
		}
	}
	pv := ""
	if th.R.shareUsed && !c.Shared {
		pv = "priv "
	}
	th.block(pv+"chan recv", c.recvReady)
	if v, ok := c.take(); ok {
		return v, true
	}
	return th.R.zero(c.ET), false
}

func (th *Thread) chanClose(c *ChanObj, pos token.Pos) {
	if c == nil {
		th.targetPanic("close of nil channel", pos)
	}
	if c.Closed {
		th.targetPanic("close of closed channel", pos)
	}
	c.Closed = true
}

func (th *Thread) selectOp(fr *frame, in *ssa.Select) Value {
	r := th.R
	type st struct {
		c    *ChanObj
		send bool
		v    Value
	}
	var states []st
	for _, s := range in.States {
		c, _ := fr.get(s.Chan).(*ChanObj)
		x := st{c: c, send: s.Dir == 1 /* types.SendOnly */}
		if s.Send != nil {
			x.v = fr.get(s.Send)
			x.send = true
		}
		states = append(states, x)
	}
	ready := func(i int) bool {
		s := states[i]
		if s.c == nil {
			return false
		}
		if s.send {
			if s.c.Closed {
				return true
			}
			if s.c.Cap > 0 {
				return len(s.c.Buf) < s.c.Cap
			}
			r.unsupported("select with send on unbuffered channel")
		}
		return s.c.recvReady()
	}
	anyReady := func() bool {
		for i := range states {
			if ready(i) {
				return true
			}
		}
		return false
	}
	th.yield()
	chosen := -1
	if in.Blocking {
		// register as waiting receiver on recv channels so that unbuffered senders can proceed
		th.block("select", anyReady)
	}
	var rs []int
	for i := range states {
		if ready(i) {
			rs = append(rs, i)
		}
	}
	if len(rs) > 0 {
		k := 0
		if len(rs) > 1 {
			k = r.Choice(len(rs))
		}
		chosen = rs[k]
	}
	// build receive slots
	res := TupleV{r.TB.Int(64, int64(chosen)), r.TB.False}
	for i, s := range states {
		if s.send {
			continue
		}
		var v Value
		if s.c != nil {
			v = r.zero(s.c.ET)
		} else {
			v = r.zero(chanElem(in.States[i].Chan.Type()))
		}
		if i == chosen {
			if got, ok := s.c.take(); ok {
				v = got
				res[1] = r.TB.True
			}
		}
		res = append(res, v)
	}
	if chosen >= 0 && states[chosen].send {
		s := states[chosen]
		if s.c.Closed {
			th.targetPanic("send on closed channel", in.Pos())
		}
		s.c.Buf = append(s.c.Buf, s.v)
	}
	return res
}
