package sym

import (
	"fmt"
	"go/token"
	"sort"
	"strings"
	"sync"

	"golang.org/x/tools/go/ssa"
)

// pathEnd is panicked (host panic) to terminate the current path.
type pathEnd struct {
	Kind string // done | infeasible | unsupported | budget | unknown | dead | bound
	Msg  string
}

// goPanic is a panic of the program under analysis.
type goPanic struct {
	V       Value
	Msg     string
	Pos     token.Pos
	Runtime bool
}

type NondetRec struct {
	Kind string `json:"kind"`
	Name string `json:"name"`
	Val  string `json:"value,omitempty"` // filled from the model for replays
}

// work is one unexplored path prefix.
type work struct {
	prefix []int32
	model  *Model
}

// Run is the execution of one path.
type Run struct {
	E  *Engine
	H  *HarnessRun
	TB *Table
	S  *Solver

	PC    []*Term
	atoms map[int]bool
	model *Model
	mcach map[int]uint64

	prefix []int32
	pos    int
	trace  []int32

	serial  int
	epoch   int
	globals map[*ssa.Global]*Object
	threads []*Thread
	cur     *Thread
	dead    bool
	steps   int

	nondet   []*Term
	nondetK  []string
	choices  []int
	covers   map[string]bool
	locks    map[string]*lockState
	wgs      map[string]*wgState
	conds    map[string]*condState
	builders map[string][]*Term
	parDepth int
	preempts int
	sched    []int // schedule log (thread ids at decisions)
	carrier  map[string][]*Term

	clock     *Term
	clockN    int
	timers    []*timer
	errSerial int

	access []accessRec
	notes  []string
	inited map[*ssa.Package]bool

	wg           sync.WaitGroup
	deadReason   *pathEnd
	uncaught     *goPanic
	mapOrderMode int
	mapOrders    []int
	firedLog     []int
	lastPanic    string
	stamp        int
	monitor      bool
	shareUsed    bool
	inInit       bool
	nAsserts     int
	hadViolation bool
	preemptSet   bool
	preemptBound int
	curOp        string
}

func (r *Run) newObject(v Value, typ interface{}) *Object {
	r.serial++
	o := &Object{ID: r.serial, V: v, Born: r.serial, Epoch: r.epoch}
	return o
}

func (r *Run) end(kind, msg string, args ...interface{}) {
	panic(pathEnd{Kind: kind, Msg: fmt.Sprintf(msg, args...)})
}

func (r *Run) unsupported(msg string, args ...interface{}) {
	r.end("unsupported", msg, args...)
}

// ---- decisions ----

func (r *Run) nextRecorded() (int32, bool) {
	if r.pos < len(r.prefix) {
		c := r.prefix[r.pos]
		r.pos++
		r.trace = append(r.trace, c)
		return c, true
	}
	return 0, false
}

func (r *Run) record(c int32) {
	r.trace = append(r.trace, c)
	r.pos++
}

func (r *Run) fork(alt int32, m *Model) {
	p := make([]int32, len(r.trace)+1)
	copy(p, r.trace)
	p[len(r.trace)] = alt
	r.H.enqueue(work{prefix: p, model: m})
}

func (r *Run) setModel(m *Model) {
	if m != r.model {
		r.model = m
		r.mcach = map[int]uint64{}
	}
}

func (r *Run) evalModel(t *Term) (uint64, bool) {
	if r.model == nil {
		return 0, false
	}
	return r.model.Eval(t, r.mcach)
}

// check asks the solver whether PC ∧ extra is satisfiable.
func (r *Run) check(extra ...*Term) (Result, *Model) {
	as := make([]*Term, 0, len(r.PC)+len(extra))
	as = append(as, r.PC...)
	as = append(as, extra...)
	syms, apps := Syms(as)
	vals := append(append([]*Term{}, syms...), apps...)
	res, out := r.S.Check(r.TB, as, vals)
	if res != Sat {
		return res, nil
	}
	m := &Model{Syms: map[string]uint64{}, Apps: map[string]uint64{}}
	for i, s := range syms {
		m.Syms[s.Name] = out[i]
	}
	// applications: need argument values; evaluate args under the partially built model
	cache := map[int]uint64{}
	for i, a := range apps {
		var avs []uint64
		ok := true
		for _, x := range a.Args {
			v, k := m.Eval(x, cache)
			if !k {
				ok = false
				break
			}
			avs = append(avs, v)
		}
		if ok {
			m.Apps[appKey(a.Name, avs)] = out[len(syms)+i]
			cache[a.ID] = out[len(syms)+i]
		}
	}
	return Sat, m
}

func (r *Run) assume(c *Term, b bool) {
	if b {
		r.PC = append(r.PC, c)
	} else {
		r.PC = append(r.PC, r.TB.Not(c))
	}
	r.setAtom(c, b)
}

func (r *Run) setAtom(c *Term, b bool) {
	r.atoms[c.ID] = b
	switch {
	case c.Op == ONot:
		r.setAtom(c.Args[0], !b)
	case c.Op == OAnd && b:
		for _, a := range c.Args {
			r.setAtom(a, true)
		}
	case c.Op == OOr && !b:
		for _, a := range c.Args {
			r.setAtom(a, false)
		}
	}
}

func (r *Run) known(c *Term) (bool, bool) {
	if c.IsConst() {
		return c.IsTrue(), true
	}
	if v, ok := r.atoms[c.ID]; ok {
		return v, true
	}
	if c.Op == ONot {
		if v, ok := r.atoms[c.Args[0].ID]; ok {
			return !v, true
		}
	}
	return false, false
}

// Branch decides a symbolic condition, forking when both outcomes are feasible.
func (r *Run) Branch(c *Term) bool {
	if v, ok := r.known(c); ok {
		return v
	}
	if ch, ok := r.nextRecorded(); ok {
		b := ch == 1
		r.assume(c, b)
		return b
	}
	r.H.addBranches(1)
	notc := r.TB.Not(c)
	tRes, fRes := Unknown, Unknown
	var tM, fM *Model
	tKnown, fKnown := false, false
	if v, ok := r.evalModel(c); ok {
		if v == 1 {
			tRes, tM, tKnown = Sat, r.model, true
		} else {
			fRes, fM, fKnown = Sat, r.model, true
		}
	}
	if !tKnown {
		tRes, tM = r.check(c)
		if tRes == Unknown {
			r.end("unknown", "solver unknown on branch: %s", r.S.LastErr)
		}
	}
	if !fKnown {
		if tRes == Unsat {
			fRes, fM = Sat, r.model
		} else {
			fRes, fM = r.check(notc)
			if fRes == Unknown {
				r.end("unknown", "solver unknown on branch: %s", r.S.LastErr)
			}
		}
	}
	switch {
	case tRes == Sat && fRes == Sat:
		r.fork(0, fM)
		r.record(1)
		r.assume(c, true)
		r.setModel(tM)
		return true
	case tRes == Sat:
		r.record(1)
		r.assume(c, true)
		r.setModel(tM)
		return true
	case fRes == Sat:
		r.record(0)
		r.assume(c, false)
		r.setModel(fM)
		return false
	}
	r.end("infeasible", "path condition became infeasible")
	return false
}

// Assume adds c to the path condition; an infeasible path ends silently.
func (r *Run) Assume(c *Term) {
	if v, ok := r.known(c); ok {
		if !v {
			r.end("infeasible", "assumption false")
		}
		return
	}
	if ch, ok := r.nextRecorded(); ok {
		if ch == 0 {
			r.end("infeasible", "assumption false")
		}
		r.assume(c, true)
		return
	}
	if v, ok := r.evalModel(c); ok && v == 1 {
		r.record(1)
		r.assume(c, true)
		return
	}
	res, m := r.check(c)
	switch res {
	case Unknown:
		r.end("unknown", "solver unknown on assume: %s", r.S.LastErr)
	case Unsat:
		r.record(0)
		r.end("infeasible", "assumption unsatisfiable")
	}
	r.record(1)
	r.assume(c, true)
	r.setModel(m)
}

// Choice is an n-way nondeterministic (always feasible) decision.
func (r *Run) Choice(n int) int {
	if n <= 1 {
		return 0
	}
	if ch, ok := r.nextRecorded(); ok {
		return int(ch)
	}
	for i := n - 1; i >= 1; i-- {
		r.fork(int32(i), r.model)
	}
	r.record(0)
	return 0
}

// Concretize returns a concrete value of t within [lo,hi], forking over all feasible values.
// A feasible value outside the interval ends the path as "bound".
func (r *Run) Concretize(t *Term, lo, hi int64, signed bool, what string) int64 {
	if t.IsConst() {
		if signed {
			return t.SInt()
		}
		return int64(t.Val)
	}
	w := t.Sort.Width()
	if ch, ok := r.nextRecorded(); ok {
		v := lo + int64(ch)
		r.assume(r.TB.Eq(t, r.TB.Int(w, v)), true)
		return v
	}
	// out-of-range check
	var inRange *Term
	if signed {
		inRange = r.TB.And(r.TB.Bin(OSle, r.TB.Int(w, lo), t), r.TB.Bin(OSle, t, r.TB.Int(w, hi)))
	} else {
		inRange = r.TB.And(r.TB.Bin(OUle, r.TB.Int(w, lo), t), r.TB.Bin(OUle, t, r.TB.Int(w, hi)))
	}
	if res, _ := r.check(r.TB.Not(inRange)); res != Unsat {
		r.end("bound", "%s: value outside [%d,%d] is feasible (size bound exceeded)", what, lo, hi)
	}
	type opt struct {
		v int64
		m *Model
	}
	var feas []opt
	for v := lo; v <= hi; v++ {
		eq := r.TB.Eq(t, r.TB.Int(w, v))
		if k, ok := r.known(eq); ok {
			if k {
				feas = append(feas, opt{v, r.model})
			}
			continue
		}
		res, m := r.check(eq)
		if res == Unknown {
			r.end("unknown", "solver unknown in concretize")
		}
		if res == Sat {
			feas = append(feas, opt{v, m})
		}
	}
	if len(feas) == 0 {
		r.end("infeasible", "no feasible value")
	}
	for i := len(feas) - 1; i >= 1; i-- {
		r.fork(int32(feas[i].v-lo), feas[i].m)
	}
	r.record(int32(feas[0].v - lo))
	r.assume(r.TB.Eq(t, r.TB.Int(w, feas[0].v)), true)
	r.setModel(feas[0].m)
	return feas[0].v
}

// ---- nondeterministic inputs ----

func (r *Run) fresh(kind string, s Sort) *Term {
	name := fmt.Sprintf("n%d_%s", len(r.nondet), kind)
	t := r.TB.Sym(s, name)
	r.nondet = append(r.nondet, t)
	r.nondetK = append(r.nondetK, kind)
	return t
}

// internal symbol not replayed (clock instants are recorded separately)
func (r *Run) freshInternal(prefix string, s Sort) *Term {
	r.serial++
	return r.TB.Sym(s, fmt.Sprintf("%s%d", prefix, r.serial))
}

func (r *Run) cover(id string) {
	if r.covers == nil {
		r.covers = map[string]bool{}
	}
	r.covers[id] = true
}

func (r *Run) pcString() string {
	var ss []string
	for _, p := range r.PC {
		ss = append(ss, termString(p, 0))
	}
	return strings.Join(ss, " ∧ ")
}

func termString(t *Term, depth int) string {
	if depth > 6 {
		return "…"
	}
	switch t.Op {
	case OConst:
		if t.Sort == SBool {
			return fmt.Sprint(t.Val == 1)
		}
		if t.Sort == SF64 {
			return fmt.Sprint(t.F64())
		}
		return fmt.Sprint(t.SInt())
	case OSym:
		return t.Name
	}
	var as []string
	for _, a := range t.Args {
		as = append(as, termString(a, depth+1))
	}
	n := opNames[t.Op]
	if t.Op == OApp {
		n = t.Name
	}
	if n == "" {
		n = fmt.Sprintf("op%d", t.Op)
	}
	return "(" + n + " " + strings.Join(as, " ") + ")"
}

func sortedKeys(m map[string]bool) []string {
	var ks []string
	for k := range m {
		ks = append(ks, k)
	}
	sort.Strings(ks)
	return ks
}
