package sym

import (
	"context"
	"fmt"
	"os"
	"os/exec"
	"path/filepath"
	"strings"
	"sync"
	"time"
)

// Cross-solver check. A sample of the queries z3 4.8.12 decided during a run (path feasibility and
// assertion queries alike) is kept as self-contained SMT-LIB2 scripts together with z3's verdict
// and re-decided afterwards by z3 5.1 and by cvc5. A sat/unsat disagreement makes the check exit 2:
// the encoding (or a solver) cannot be trusted on that query. Timeouts of the second solvers are
// counted, not treated as disagreement.

type querySample struct {
	body string
	res  Result
}

type crossSampler struct {
	mu      sync.Mutex
	every   int64
	max     int
	n       int64
	samples []querySample
}

func (c *crossSampler) offer(body string, res Result) {
	if c == nil || (res != Sat && res != Unsat) {
		return
	}
	c.mu.Lock()
	defer c.mu.Unlock()
	c.n++
	if len(c.samples) < c.max && c.n%c.every == 0 {
		c.samples = append(c.samples, querySample{body, res})
	}
}

type crossResult struct {
	Sampled       int      `json:"queries_sampled"`
	Rule          string   `json:"rule"`
	Z3New         [3]int   `json:"z3_5_1_agree_disagree_noanswer"`
	CVC5          [3]int   `json:"cvc5_agree_disagree_noanswer"`
	Disagreements []string `json:"disagreements"`
	WallS         float64  `json:"wall_s"`
}

func runSolverFile(bin string, args []string, file string, timeout time.Duration) []string {
	ctx, cancel := context.WithTimeout(context.Background(), timeout)
	defer cancel()
	cmd := exec.CommandContext(ctx, bin, append(args, file)...)
	out, _ := cmd.Output()
	var res []string
	for _, l := range strings.Split(string(out), "\n") {
		l = strings.TrimSpace(l)
		if l == "sat" || l == "unsat" || l == "unknown" || strings.HasPrefix(l, "(error") || l == "timeout" {
			res = append(res, l)
		}
	}
	return res
}

func (c *crossSampler) run() *crossResult {
	t0 := time.Now()
	r := &crossResult{Sampled: len(c.samples), Rule: fmt.Sprintf("every %d-th query decided by z3 4.8.12 (cap %d) re-decided one-shot by z3 5.1 (smt.bv.solver default) and cvc5 1.0.x, 20 s per query", c.every, c.max)}
	if len(c.samples) == 0 {
		return r
	}
	dir, err := os.MkdirTemp("", "gosym-cross-")
	if err != nil {
		return r
	}
	defer os.RemoveAll(dir)
	type job struct {
		i    int
		file string
	}
	var wg sync.WaitGroup
	var mu sync.Mutex
	sem := make(chan struct{}, 16)
	for i, q := range c.samples {
		f := filepath.Join(dir, fmt.Sprintf("q%d.smt2", i))
		os.WriteFile(f, []byte(q.body+"(check-sat)\n"), 0o644)
		wg.Add(1)
		go func(i int, f string, want Result) {
			defer wg.Done()
			sem <- struct{}{}
			defer func() { <-sem }()
			for k, sv := range []struct {
				bin  string
				args []string
			}{{"z3-new", []string{"-smt2", "-T:20"}}, {"cvc5", []string{"--lang", "smt2", "--tlimit=20000"}}} {
				file := f
				if sv.bin == "cvc5" {
					// cvc5 needs a logic; the scripts carry none
					file = f + ".cvc5"
					os.WriteFile(file, []byte("(set-logic ALL)\n"+c.samples[i].body+"(check-sat)\n"), 0o644)
				}
				out := runSolverFile(sv.bin, sv.args, file, 30*time.Second)
				verdict := 2 // no answer
				if len(out) == 1 && (out[0] == "sat" || out[0] == "unsat") {
					if out[0] == want.String() {
						verdict = 0
					} else {
						verdict = 1
					}
				}
				mu.Lock()
				if k == 0 {
					r.Z3New[verdict]++
				} else {
					r.CVC5[verdict]++
				}
				if verdict == 1 {
					r.Disagreements = append(r.Disagreements, fmt.Sprintf("query %d: z3 4.8.12 %s, %s %v", i, want, sv.bin, out))
				}
				mu.Unlock()
			}
		}(i, f, q.res)
	}
	wg.Wait()
	r.WallS = time.Since(t0).Seconds()
	return r
}
