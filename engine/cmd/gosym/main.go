// gosym: bounded symbolic execution of esimov/gogu from go/ssa with z3 deciding every assertion.
package main

import (
	"flag"
	"fmt"
	"os"
	"runtime"
	"strconv"

	"verif/engine/sym"
)

func main() {
	if len(os.Args) < 2 {
		fmt.Println("usage: gosym check|replay|list ...")
		os.Exit(2)
	}
	switch os.Args[1] {
	case "check":
		fs := flag.NewFlagSet("check", flag.ExitOnError)
		prop := fs.String("property", "", "property id (C01..C20)")
		tier := fs.String("tier", "", "quick|thorough")
		repo := fs.String("repo", envOr("VERIF_REPO", "/repo"), "repository under test")
		verif := fs.String("verif", envOr("VERIF_DIR", "/verif"), "verification dir")
		workers := fs.Int("workers", runtime.NumCPU(), "parallel workers")
		only := fs.String("harness", "", "regexp restricting harness entries")
		noReplay := fs.Bool("no-replay", false, "do not confirm counterexamples natively")
		verbose := fs.Bool("v", false, "verbose")
		maxPaths := fs.Int64("max-paths", 0, "path budget per harness")
		fs.Parse(os.Args[2:])
		if *tier == "" {
			*tier = envOr("VERIF_TIER", "quick")
		}
		seed, _ := strconv.ParseInt(envOr("VERIF_SEED", "0"), 10, 64)
		spec := sym.Properties[*prop]
		if spec == nil {
			fmt.Println("unknown property", *prop)
			os.Exit(2)
		}
		os.Exit(sym.RunProperty(spec, sym.CheckOptions{Repo: *repo, Verif: *verif, Tier: *tier, Workers: *workers,
			Only: *only, Seed: seed, NoReplay: *noReplay, Verbose: *verbose, MaxPaths: *maxPaths}))
	case "replay":
		fs := flag.NewFlagSet("replay", flag.ExitOnError)
		repo := fs.String("repo", envOr("VERIF_REPO", "/repo"), "repository under test")
		verif := fs.String("verif", envOr("VERIF_DIR", "/verif"), "verification dir")
		fs.Parse(os.Args[2:])
		if fs.NArg() != 1 {
			fmt.Println("usage: gosym replay <file>")
			os.Exit(2)
		}
		ok, out := sym.ReplayNative(*repo, *verif, fs.Arg(0))
		fmt.Println(out)
		if ok {
			fmt.Println("REPRODUCED")
			os.Exit(1)
		}
		fmt.Println("NOT REPRODUCED")
		os.Exit(0)
	case "manifest":
		os.Stdout.Write(sym.Manifest())
	case "list":
		for id, p := range sym.Properties {
			fmt.Println(id, p.Dirs, p.Prefix)
		}
	default:
		fmt.Println("unknown command", os.Args[1])
		os.Exit(2)
	}
}

func envOr(k, d string) string {
	if v := os.Getenv(k); v != "" {
		return v
	}
	return d
}
