package queue

// C05 — S2: bounded histories through the public API for both implementations, compared step by
// step with a slice model (symbolic element values; lengths are concrete per path). This is the
// shape that exhibits drain-then-refill and clear-then-refill.

import (
	vrt "github.com/esimov/gogu/zzvrt"
)

func ZvC05_S2_Queue() {
	q := New[int]()
	var ref []int
	steps := vrt.Choice(vrt.Pick(4, 6)) + 1
	for s := 0; s < steps; s++ {
		switch vrt.Choice(4) {
		case 0:
			x := vrt.Int()
			q.Enqueue(x)
			ref = append(ref, x)
		case 1:
			r, err := q.Dequeue()
			if len(ref) == 0 {
				vrt.Assert(vrt.And(err != nil, r == 0), "C05/S2/Queue/Dequeue-empty")
			} else {
				vrt.Assert(vrt.And(err == nil, r == ref[0]), "C05/S2/Queue/Dequeue-fifo")
				ref = ref[1:]
			}
		case 2:
			q.Clear()
			ref = nil
		case 3:
			x := vrt.Int()
			vrt.Assert(q.Search(x) == (vrt.CountInt(ref, x) >= 1), "C05/S2/Queue/Search")
		}
		vrt.Assert(q.Size() == len(ref), "C05/S2/Queue/Size")
		if len(ref) > 0 {
			vrt.Assert(q.Peek() == ref[0], "C05/S2/Queue/Peek")
		} else {
			vrt.Assert(q.Peek() == 0, "C05/S2/Queue/Peek-empty")
		}
	}
	vrt.Cover("C05/S2/Queue/end")
}

func ZvC05_S2_LQueue() {
	x0 := vrt.Int()
	q := NewLinked(x0)
	ref := []int{x0}
	steps := vrt.Choice(vrt.Pick(5, 7)) + 1
	for s := 0; s < steps; s++ {
		switch vrt.Choice(4) {
		case 0:
			x := vrt.Int()
			vrt.Assert(!vrt.Try(func() { q.Enqueue(x) }), "C05/S2/LQueue/Enqueue-no-panic")
			ref = append(ref, x)
		case 1:
			var r int
			vrt.Assert(!vrt.Try(func() { r = q.Dequeue() }), "C05/S2/LQueue/Dequeue-no-panic")
			if len(ref) == 0 {
				vrt.Assert(r == 0, "C05/S2/LQueue/Dequeue-empty-zero")
				vrt.Cover("C05/S2/LQueue/dequeue-on-empty")
			} else {
				vrt.Assert(r == ref[0], "C05/S2/LQueue/Dequeue-fifo")
				ref = ref[1:]
				if len(ref) == 0 {
					vrt.Cover("C05/S2/LQueue/drained")
				}
			}
		case 2:
			q.Clear()
			ref = nil
		case 3:
			x := vrt.Int()
			vrt.Assert(q.Search(x) == (vrt.CountInt(ref, x) >= 1), "C05/S2/LQueue/Search")
		}
		vrt.Assert(q.Size() == len(ref), "C05/S2/LQueue/Size")
		if len(ref) > 0 {
			vrt.Assert(q.Peek() == ref[0], "C05/S2/LQueue/Peek")
		} else {
			vrt.Assert(q.Peek() == 0, "C05/S2/LQueue/Peek-empty-zero")
		}
		vrt.Assert(vrt.LocksHeld() == 0, "C05/S2/LQueue/lock-released")
	}
	vrt.Cover("C05/S2/LQueue/end")
}

// ZvC05_LongRun: one long scenario beyond the inductive size bound — grow the slice queue to 130
// symbolic elements (the backing array is reallocated seven times on the way), then drain it
// completely, checking value, Size and Peek at every step. Not a substitute for larger bounds,
// but it exercises capacity-dependent code (growth, and any shrinking an implementation may do)
// that queues of <= 6 elements never reach.
func ZvC05_LongRun() {
	const N = 130
	q := New[int]()
	vals := make([]int, N)
	for i := range vals {
		vals[i] = vrt.Int()
		q.Enqueue(vals[i])
	}
	vrt.Assert(q.Size() == N, "C05/Queue/long-run/Size-after-growth")
	for i := 0; i < N; i++ {
		vrt.Assert(q.Peek() == vals[i], "C05/Queue/long-run/Peek-is-next")
		v, err := q.Dequeue()
		vrt.Assert(vrt.And(err == nil, v == vals[i]), "C05/Queue/long-run/fifo-without-loss")
		vrt.Assert(q.Size() == N-1-i, "C05/Queue/long-run/Size-while-draining")
	}
	_, err := q.Dequeue()
	vrt.Assert(vrt.And(err != nil, q.Size() == 0), "C05/Queue/long-run/empty-at-the-end")
}

// ZvC05_LongRun_Linked: the same long scenario for the linked queue (130 symbolic elements, drain,
// refill after the drain).
func ZvC05_LongRun_Linked() {
	const N = 130
	vals := make([]int, N)
	for i := range vals {
		vals[i] = vrt.Int()
	}
	q := NewLinked(vals[0])
	for i := 1; i < N; i++ {
		q.Enqueue(vals[i])
	}
	vrt.Assert(q.Size() == N, "C05/LQueue/long-run/Size-after-growth")
	for i := 0; i < N; i++ {
		vrt.Assert(q.Peek() == vals[i], "C05/LQueue/long-run/Peek-is-next")
		vrt.Assert(q.Dequeue() == vals[i], "C05/LQueue/long-run/fifo-without-loss")
		vrt.Assert(q.Size() == N-1-i, "C05/LQueue/long-run/Size-while-draining")
	}
	x := vrt.Int()
	q.Enqueue(x)
	vrt.Assert(vrt.And(q.Size() == 1, q.Dequeue() == x, q.Size() == 0), "C05/LQueue/long-run/refill-after-drain")
}
