package queue

// C01 / C02 — concurrent programs over Queue[int] and LQueue[int] through the public API only.
// Shape S3 (driver: zzvrt.ConcCheck): the concurrent run (every schedule at synchronisation
// granularity, symbolic data) against sequential runs of the REAL code on identical copies.

import (
	vrt "github.com/esimov/gogu/zzvrt"
)

const (
	zqEnqueue = iota
	zqDequeue
	zqPeek
	zqSearch
	zqSize
	zqClear
)

var zvQNames = [...]string{"Enqueue", "Dequeue", "Peek", "Search", "Size", "Clear"}
var zvQAll = []int{zqEnqueue, zqDequeue, zqPeek, zqSearch, zqSize, zqClear}

type zvSliceQ struct{ q *Queue[int] }

func (z zvSliceQ) Apply(c vrt.ConcCall) (r vrt.ConcRes) {
	vrt.Note(zvQNames[c.K])
	r.Pan = vrt.Try(func() {
		switch c.K {
		case zqEnqueue:
			z.q.Enqueue(c.X)
		case zqDequeue:
			v, err := z.q.Dequeue()
			r.V, r.OK = v, err == nil
		case zqPeek:
			r.V = z.q.Peek()
		case zqSearch:
			r.OK = z.q.Search(c.X)
		case zqSize:
			r.V = z.q.Size()
		case zqClear:
			z.q.Clear()
		}
	})
	return
}

func (z zvSliceQ) Observe(_ []int) []int {
	out := []int{z.q.Size()} // Size is observable too: a count driven below zero drains like an empty queue
	for i := 0; i < 8; i++ {
		v, err := z.q.Dequeue()
		if err != nil {
			break
		}
		out = append(out, v)
	}
	return out
}

type zvLinkedQ struct{ q *LQueue[int] }

func (z zvLinkedQ) Apply(c vrt.ConcCall) (r vrt.ConcRes) {
	vrt.Note(zvQNames[c.K])
	r.Pan = vrt.Try(func() {
		switch c.K {
		case zqEnqueue:
			z.q.Enqueue(c.X)
		case zqDequeue:
			r.V = z.q.Dequeue() // the linked Dequeue has no error result
		case zqPeek:
			r.V = z.q.Peek()
		case zqSearch:
			r.OK = z.q.Search(c.X)
		case zqSize:
			r.V = z.q.Size()
		case zqClear:
			z.q.Clear()
		}
	})
	return
}

func (z zvLinkedQ) Observe(_ []int) []int {
	out := []int{z.q.Size()} // Size is observable too: a count driven below zero drains like an empty queue
	for i := 0; i < 8 && z.q.Size() > 0; i++ {
		out = append(out, z.q.Dequeue())
	}
	return out
}

func zvMkSlice(vals []int) func() vrt.ConcInst {
	return func() vrt.ConcInst {
		q := New[int]()
		for _, v := range vals {
			q.Enqueue(v)
		}
		return zvSliceQ{q}
	}
}

func zvMkLinked(vals []int) func() vrt.ConcInst {
	return func() vrt.ConcInst {
		if len(vals) == 0 {
			q := NewLinked(0)
			q.Dequeue()
			return zvLinkedQ{q}
		}
		q := NewLinked(vals[0])
		for _, v := range vals[1:] {
			q.Enqueue(v)
		}
		return zvLinkedQ{q}
	}
}

func zvVals(max int) []int {
	n := vrt.Choice(max + 1)
	vals := make([]int, n)
	for i := range vals {
		vals[i] = vrt.Int()
	}
	return vals
}

// a follow-up enqueue must be delivered after everything that was there
func zvQFollow(q vrt.ConcInst) bool {
	y := vrt.Int()
	r := q.Apply(vrt.ConcCall{K: zqEnqueue, X: y})
	obs := q.Observe(nil) // [Size, drained elements...]
	if len(obs) < 2 {
		return false // the enqueued element was not delivered at all
	}
	return vrt.And(!r.Pan, obs[0] >= 1, obs[len(obs)-1] == y)
}

func ZvC01_Queue() {
	vrt.ConcCheck("C01", "Queue", zvMkSlice(zvVals(2)), vrt.ConcProgram(vrt.ConcShape(), zvQAll), nil, true, false, zvQFollow)
}
func ZvC01_LQueue() {
	vrt.ConcCheck("C01", "LQueue", zvMkLinked(zvVals(2)), vrt.ConcProgram(vrt.ConcShape(), zvQAll), nil, true, false, zvQFollow)
}
func ZvC02_Queue() {
	vrt.ConcCheck("C02", "Queue", zvMkSlice(zvVals(2)), vrt.ConcProgram(vrt.ConcShape(), zvQAll), nil, false, true, nil)
}
func ZvC02_LQueue() {
	vrt.ConcCheck("C02", "LQueue", zvMkLinked(zvVals(2)), vrt.ConcProgram(vrt.ConcShape(), zvQAll), nil, false, true, nil)
}
