package queue

// C05 — slice-backed Queue, S1: one real operation from an ARBITRARY items slice (any length up to
// the bound, any offset into its backing array, spare capacity or none, nil), against sequence
// semantics. Touches the unexported field items.

import (
	vrt "github.com/esimov/gogu/zzvrt"
)

func zvQueueN(n int) (*Queue[int], []int) {
	if n == 0 && vrt.Choice(2) == 1 {
		return &Queue[int]{}, nil // nil items (fresh queue / after Clear)
	}
	off := vrt.Choice(2)
	spare := 2 * vrt.Choice(2)
	back := make([]int, off+n+spare)
	for i := range back {
		back[i] = vrt.Int()
	}
	items := back[off : off+n]
	return &Queue[int]{items: items}, append([]int(nil), items...)
}

func zvN() int { return vrt.Choice(vrt.Pick(4, 6) + 1) }

func ZvC05_S1_New() {
	q := New[int]()
	_, err := q.Dequeue()
	vrt.Assert(vrt.And(q.Size() == 0, q.Peek() == 0, err != nil, !q.Search(0)), "C05/Queue/New-empty")
}

func ZvC05_S1_Enqueue() {
	n := zvN()
	q, pre := zvQueueN(n)
	x := vrt.Int()
	vrt.Assert(!vrt.Try(func() { q.Enqueue(x) }), "C05/Queue/Enqueue/no-panic")
	vrt.Assert(vrt.SeqEqInt(q.items, append(pre, x)), "C05/Queue/Enqueue/appends-at-back")
	vrt.Assert(q.Size() == n+1, "C05/Queue/Enqueue/Size")
	vrt.Assert(vrt.LocksHeld() == 0, "C05/Queue/Enqueue/lock-released")
}

func ZvC05_S1_Dequeue() {
	n := zvN()
	q, pre := zvQueueN(n)
	var r int
	var err error
	vrt.Assert(!vrt.Try(func() { r, err = q.Dequeue() }), "C05/Queue/Dequeue/no-panic")
	vrt.Assert(vrt.LocksHeld() == 0, "C05/Queue/Dequeue/lock-released")
	if n == 0 {
		vrt.Assert(vrt.And(err != nil, r == 0, len(q.items) == 0, q.Size() == 0), "C05/Queue/Dequeue/empty-reports-error-changes-nothing")
		vrt.Cover("C05/Queue/Dequeue/empty")
		return
	}
	vrt.Assert(vrt.And(err == nil, r == pre[0]), "C05/Queue/Dequeue/returns-oldest")
	vrt.Assert(vrt.SeqEqInt(q.items, pre[1:]), "C05/Queue/Dequeue/removes-exactly-front")
	vrt.Assert(q.Size() == n-1, "C05/Queue/Dequeue/Size")
	vrt.Cover("C05/Queue/Dequeue/nonempty")
}

func ZvC05_S1_Observers() {
	n := zvN()
	q, pre := zvQueueN(n)
	x := vrt.Int()
	pk := q.Peek()
	if n == 0 {
		vrt.Assert(pk == 0, "C05/Queue/Peek/empty-zero")
	} else {
		vrt.Assert(pk == pre[0], "C05/Queue/Peek/is-next-dequeue")
	}
	vrt.Assert(q.Search(x) == (vrt.CountInt(pre, x) >= 1), "C05/Queue/Search/exactly-held")
	vrt.Assert(q.Size() == n, "C05/Queue/Size")
	vrt.Assert(vrt.SeqEqInt(q.items, pre), "C05/Queue/observers-do-not-modify")
	vrt.Assert(vrt.LocksHeld() == 0, "C05/Queue/observers/lock-released")
}

func ZvC05_S1_Clear() {
	n := zvN()
	q, _ := zvQueueN(n)
	q.Clear()
	_, err := q.Dequeue()
	vrt.Assert(vrt.And(q.Size() == 0, q.Peek() == 0, err != nil), "C05/Queue/Clear/empties")
	x := vrt.Int()
	q.Enqueue(x)
	vrt.Assert(vrt.And(q.Size() == 1, q.Peek() == x), "C05/Queue/Clear/usable-after")
}
