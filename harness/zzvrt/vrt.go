// Package zzvrt is the harness runtime. Under the symbolic engine (gosym) every function below
// marked "intrinsic" is intercepted and never executed; the bodies here are the NATIVE semantics
// used when a counterexample is replayed against the real build: values come from the replay
// file named by $ZV_REPLAY.
package zzvrt

import (
	"encoding/json"
	"fmt"
	"os"
	"strconv"
	"strings"
	"sync"
	"unsafe"
)

type nondetRec struct {
	Kind  string `json:"kind"`
	Name  string `json:"name"`
	Value string `json:"value"`
}

type replayFile struct {
	Harness   string                `json:"harness"`
	ID        string                `json:"id"`
	Nondet    []nondetRec           `json:"nondet"`
	Choices   []int                 `json:"choices"`
	UF        map[string][][]string `json:"uf"`
	Schedule  []int                 `json:"schedule"`
	Fired     []int                 `json:"timers_fired"`
	Tier      int                   `json:"tier"`
}

var (
	rp       replayFile
	loaded   bool
	ni, ci   int
	mu       sync.Mutex
	failures []string
	lastPanic string
)

func load() {
	if loaded {
		return
	}
	loaded = true
	p := os.Getenv("ZV_REPLAY")
	if p == "" {
		fmt.Println("ZV: no replay file ($ZV_REPLAY)")
		os.Exit(5)
	}
	data, err := os.ReadFile(p)
	if err != nil {
		fmt.Println("ZV: cannot read replay:", err)
		os.Exit(5)
	}
	if err := json.Unmarshal(data, &rp); err != nil {
		fmt.Println("ZV: bad replay:", err)
		os.Exit(5)
	}
}

func next(kind string) uint64 {
	mu.Lock()
	defer mu.Unlock()
	load()
	if ni >= len(rp.Nondet) {
		// inputs beyond the recorded ones are unconstrained: use zero
		ni++
		return 0
	}
	r := rp.Nondet[ni]
	ni++
	if r.Kind != kind {
		fmt.Printf("ZV: replay divergence: want %s got %s (#%d)\n", kind, r.Kind, ni-1)
		os.Exit(6)
	}
	v, _ := strconv.ParseUint(r.Value, 10, 64)
	return v
}

// ---- nondeterministic inputs (intrinsic) ----

func Int() int         { return int(next("int")) }
func Int64() int64     { return int64(next("int64")) }
func Int32() int32     { return int32(next("int32")) }
func Int8() int8       { return int8(next("int8")) }
func Byte() byte       { return byte(next("byte")) }
func Bool() bool       { return next("bool") != 0 }
func Float64() float64 { v := next("float64"); return *(*float64)(unsafe.Pointer(&v)) }

// Str returns a string of n arbitrary bytes.
func Str(n int) string {
	b := make([]byte, n)
	for i := range b {
		b[i] = Byte()
	}
	return string(b)
}

func Assume(c bool) {
	if !c {
		fmt.Println("ZV: ASSUME-FALSE (replay does not satisfy an assumption)")
		os.Exit(4)
	}
}

func Assert(c bool, id string) {
	if !c {
		fmt.Printf("ZV: ASSERT-FAIL %s\n", id)
		os.Exit(3)
	}
}

// AssertUnless asserts c; known marks the region of a recorded finding.
func AssertUnless(known, c bool, id string) {
	if !c {
		fmt.Printf("ZV: ASSERT-FAIL %s known=%v\n", id, known)
		os.Exit(3)
	}
}

func Choice(n int) int {
	mu.Lock()
	defer mu.Unlock()
	load()
	if n <= 1 {
		return 0
	}
	if ci >= len(rp.Choices) {
		ci++
		return 0
	}
	c := rp.Choices[ci]
	ci++
	return c
}

func Cover(id string) {}
func Tier() int       { load(); return rp.Tier }
func Pick(quick, thorough int) int {
	if Tier() == 0 {
		return quick
	}
	return thorough
}

// ---- term builders (intrinsic; native = plain boolean algebra) ----

func And(cs ...bool) bool {
	for _, c := range cs {
		if !c {
			return false
		}
	}
	return true
}
func Or(cs ...bool) bool {
	for _, c := range cs {
		if c {
			return true
		}
	}
	return false
}
func Not(c bool) bool        { return !c }
func Implies(a, b bool) bool { return !a || b }
func Ite(c bool, a, b int) int {
	if c {
		return a
	}
	return b
}
func IteB(c bool, a, b bool) bool {
	if c {
		return a
	}
	return b
}
func B2I(c bool) int {
	if c {
		return 1
	}
	return 0
}
func CountInt(s []int, q int) int {
	n := 0
	for _, x := range s {
		if x == q {
			n++
		}
	}
	return n
}
func SeqEqInt(a, b []int) bool {
	if len(a) != len(b) {
		return false
	}
	for i := range a {
		if a[i] != b[i] {
			return false
		}
	}
	return true
}
func StrEq(a, b string) bool { return a == b }

// Concrete forks over the feasible values of x in [lo,hi] (native: identity).
func Concrete(x, lo, hi int) int { return x }

// ---- uninterpreted functions (native: tables from the solver's model) ----

func uf(name string, args ...uint64) uint64 {
	load()
	rows := rp.UF[name]
outer:
	for _, row := range rows {
		if len(row) != len(args)+1 {
			continue
		}
		for i, a := range args {
			v, _ := strconv.ParseUint(row[i], 16, 64)
			if v != a {
				continue outer
			}
		}
		v, _ := strconv.ParseUint(row[len(args)], 16, 64)
		return v
	}
	// value not fixed by the model: any value is consistent; use a total extension. For the
	// strict-weak-order relation RelInt the extension must stay a strict weak order on the values
	// seen, which the recorded table guarantees on the carrier; outside it we answer false.
	return 0
}

// RelInt is an arbitrary strict weak order, represented by an uninterpreted rank function.
func RelInt(a, b int) bool { return int64(uf("RankInt", uint64(a))) < int64(uf("RankInt", uint64(b))) }
func FnInt(a int) int          { return int(uf("FnInt", uint64(a))) }
func PredInt(a int) bool       { return uf("PredInt", uint64(a)) != 0 }
func Pred2Int(a, b int) bool   { return uf("Pred2Int", uint64(a), uint64(b)) != 0 }
func Fn2Int(a, b int) int      { return int(uf("Fn2Int", uint64(a), uint64(b))) }
func AssumeSWO(vals ...int)    {}

// ---- control ----

// Try runs f and reports whether it panicked.
func Try(f func()) (panicked bool) {
	defer func() {
		if r := recover(); r != nil {
			panicked = true
			lastPanic = fmt.Sprint(r)
		}
	}()
	f()
	return false
}

func LastPanic() string { return lastPanic }

// SameArray reports whether two slices share backing storage (overlapping capacity ranges).
func SameArray(a, b []int) bool {
	if cap(a) == 0 || cap(b) == 0 {
		return false
	}
	pa := uintptr(unsafe.Pointer(unsafe.SliceData(a[:cap(a)])))
	pb := uintptr(unsafe.Pointer(unsafe.SliceData(b[:cap(b)])))
	ea := pa + uintptr(cap(a))*unsafe.Sizeof(int(0))
	eb := pb + uintptr(cap(b))*unsafe.Sizeof(int(0))
	return pa < eb && pb < ea
}

func MapOrderMode(k int) {}
func Note(s string)      {}
func Share(p any)        {}
func Yield()             {}
func LocksHeld() int     { return 0 }

// NowNano reads the clock (engine: a fresh symbolic instant >= all earlier ones; native replay:
// the next recorded instant, shared with the time shim).
func NowNano() int64 { return int64(next("clock")) }

// AdvanceHook is installed by the time shim (native replay only).
var AdvanceHook func(all bool)

// Advance lets the environment fire any subset of the active timers (engine: every subset is
// explored; native: the recorded choices). Quiesce fires every remaining active timer.
func Advance() {
	if AdvanceHook != nil {
		AdvanceHook(false)
	}
}
func Quiesce() {
	if AdvanceHook != nil {
		AdvanceHook(true)
	}
}

var stamp int

func Stamp() int { mu.Lock(); defer mu.Unlock(); stamp++; return stamp }

// Par runs the functions concurrently (native fallback: real goroutines, uncontrolled).
func Par(fs ...func()) {
	var wg sync.WaitGroup
	for _, f := range fs {
		wg.Add(1)
		go func(f func()) { defer wg.Done(); f() }(f)
	}
	wg.Wait()
}

// ---- Go models of library functions, executed symbolically by the engine in place of the
// assembly-backed originals (contract: same results as package strings) ----

func ModelRepeat(s string, count int) string {
	if count < 0 {
		panic("strings: negative Repeat count")
	}
	out := ""
	for i := 0; i < count; i++ {
		out += s
	}
	return out
}

func ModelIndex(s, sub string) int {
	n := len(sub)
	for i := 0; i+n <= len(s); i++ {
		if StrEq(s[i:i+n], sub) {
			return i
		}
	}
	return -1
}

func ModelLastIndex(s, sub string) int {
	n := len(sub)
	for i := len(s) - n; i >= 0; i-- {
		if StrEq(s[i:i+n], sub) {
			return i
		}
	}
	return -1
}

func isSpaceASCII(c byte) bool {
	return Or(c == ' ', c == '\t', c == '\n', c == '\v', c == '\f', c == '\r')
}

// ModelTrimSpace handles ASCII white space exactly; U+0085 and U+00A0 (the only non-ASCII
// white space below U+0800) are handled as 2-byte sequences.
func ModelTrimSpace(s string) string {
	start, end := 0, len(s)
	for start < end {
		if isSpaceASCII(s[start]) {
			start++
			continue
		}
		if start+1 < end && s[start] == 0xC2 && Or(s[start+1] == 0x85, s[start+1] == 0xA0) {
			start += 2
			continue
		}
		break
	}
	for start < end {
		if isSpaceASCII(s[end-1]) {
			end--
			continue
		}
		if end-2 >= start && s[end-2] == 0xC2 && Or(s[end-1] == 0x85, s[end-1] == 0xA0) {
			end -= 2
			continue
		}
		break
	}
	return s[start:end]
}

func ModelSplit(s, sep string) []string {
	if sep == "" {
		panic("ModelSplit: empty separator not modelled")
	}
	var out []string
	for {
		i := ModelIndex(s, sep)
		if i < 0 {
			break
		}
		out = append(out, s[:i])
		s = s[i+len(sep):]
	}
	return append(out, s)
}

var _ = strings.Repeat
