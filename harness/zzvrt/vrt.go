// Package zzvrt is the harness runtime. Under the symbolic engine (gosym) every function below
// marked "intrinsic" is intercepted and never executed; the bodies here are the NATIVE semantics
// used when a counterexample is replayed against the real build: values come from the replay
// file named by $ZV_REPLAY.
package zzvrt

import (
	"encoding/json"
	"fmt"
	"os"
	"runtime"
	"strconv"
	"strings"
	"sync"
	"time"
	"unsafe"
)

type nondetRec struct {
	Kind  string `json:"kind"`
	Name  string `json:"name"`
	Value string `json:"value"`
}

type replayFile struct {
	Harness   string                `json:"harness"`
	ID        string                `json:"id"`
	Nondet    []nondetRec           `json:"nondet"`
	Choices   []int                 `json:"choices"`
	UF        map[string][][]string `json:"uf"`
	Schedule  []int                 `json:"schedule"`
	Fired     []int                 `json:"timers_fired"`
	Tier      int                   `json:"tier"`
}

var (
	rp       replayFile
	loaded   bool
	ni, ci   int
	mu       sync.Mutex
	failures []string
	lastPanic string
)

func load() {
	if loaded {
		return
	}
	loaded = true
	p := os.Getenv("ZV_REPLAY")
	if p == "" {
		fmt.Println("ZV: no replay file ($ZV_REPLAY)")
		os.Exit(5)
	}
	data, err := os.ReadFile(p)
	if err != nil {
		fmt.Println("ZV: cannot read replay:", err)
		os.Exit(5)
	}
	if err := json.Unmarshal(data, &rp); err != nil {
		fmt.Println("ZV: bad replay:", err)
		os.Exit(5)
	}
}

func next(kind string) uint64 {
	mu.Lock()
	defer mu.Unlock()
	load()
	skipEngineOnly()
	if ni >= len(rp.Nondet) {
		// inputs beyond the recorded ones are unconstrained: use zero
		ni++
		return 0
	}
	r := rp.Nondet[ni]
	ni++
	if r.Kind != kind {
		guideNote()
		fmt.Printf("ZV: replay divergence: want %s got %s (#%d)\n", kind, r.Kind, ni-1)
		os.Exit(6)
	}
	v, _ := strconv.ParseUint(r.Value, 10, 64)
	return v
}

// skipEngineOnly passes over recorded values of sources that only the engine replaces by a
// nondeterministic value (math/rand: natively the real generator runs, and the properties that use
// it hold for every outcome).
func skipEngineOnly() {
	for ni < len(rp.Nondet) && rp.Nondet[ni].Kind == "rand" {
		ni++
	}
}

// ---- nondeterministic inputs (intrinsic) ----

func Int() int         { return int(next("int")) }
func Int64() int64     { return int64(next("int64")) }
func Int32() int32     { return int32(next("int32")) }
func Int8() int8       { return int8(next("int8")) }
func Byte() byte       { return byte(next("byte")) }
func Bool() bool       { return next("bool") != 0 }
func Float64() float64 { v := next("float64"); return *(*float64)(unsafe.Pointer(&v)) }

// Str returns a string of n arbitrary bytes.
func Str(n int) string {
	b := make([]byte, n)
	for i := range b {
		b[i] = Byte()
	}
	return string(b)
}

func Assume(c bool) {
	if !c {
		if schedOn {
			abortSchedule()
		}
		fmt.Println("ZV: ASSUME-FALSE (replay does not satisfy an assumption)")
		os.Exit(4)
	}
}

var nAsserts int

// EndLine summarises a completed native run for the translator validation: the engine's path must
// have made the same number of assertions, nondeterministic reads and choices.
func EndLine() string {
	mu.Lock()
	defer mu.Unlock()
	skipEngineOnly()
	return fmt.Sprintf("ZV: END asserts=%d nondet=%d choices=%d", nAsserts, ni, ci)
}

// guideNote tells the translator validation whether a guided native run really followed the
// engine's schedule (only then are its clock instants the ones the model assigned to each read).
func guideNote() {
	if schedOn && (guideDev || guidePos != len(rp.Schedule)) {
		fmt.Println("ZV: GUIDE deviated")
	}
}

func Assert(c bool, id string) {
	nAsserts++
	if !c {
		if schedOn && schedTarget != "" && id != schedTarget {
			otherFails[id] = true
			abortSchedule()
		}
		guideNote()
		fmt.Printf("ZV: ASSERT-FAIL %s\n", id)
		os.Exit(3)
	}
}

// AssertUnless asserts c; known marks the region of a recorded finding.
func AssertUnless(known, c bool, id string) {
	nAsserts++
	if !c {
		if schedOn && schedTarget != "" && id != schedTarget {
			otherFails[id] = true
			abortSchedule()
		}
		guideNote()
		fmt.Printf("ZV: ASSERT-FAIL %s known=%v\n", id, known)
		os.Exit(3)
	}
}

func Choice(n int) int {
	mu.Lock()
	defer mu.Unlock()
	load()
	if ci >= len(rp.Choices) {
		ci++
		return 0
	}
	c := rp.Choices[ci]
	ci++
	if c >= n {
		c = 0
	}
	return c
}

func Cover(id string) {}
func Tier() int       { load(); return rp.Tier }
func Pick(quick, thorough int) int {
	if Tier() == 0 {
		return quick
	}
	return thorough
}

// ---- term builders (intrinsic; native = plain boolean algebra) ----

func And(cs ...bool) bool {
	for _, c := range cs {
		if !c {
			return false
		}
	}
	return true
}
func Or(cs ...bool) bool {
	for _, c := range cs {
		if c {
			return true
		}
	}
	return false
}
func Not(c bool) bool        { return !c }
func Implies(a, b bool) bool { return !a || b }
func Ite(c bool, a, b int) int {
	if c {
		return a
	}
	return b
}
func IteB(c bool, a, b bool) bool {
	if c {
		return a
	}
	return b
}
func B2I(c bool) int {
	if c {
		return 1
	}
	return 0
}
func CountInt(s []int, q int) int {
	n := 0
	for _, x := range s {
		if x == q {
			n++
		}
	}
	return n
}
func SeqEqInt(a, b []int) bool {
	if len(a) != len(b) {
		return false
	}
	for i := range a {
		if a[i] != b[i] {
			return false
		}
	}
	return true
}
func StrEq(a, b string) bool { return a == b }

// Concrete forks over the feasible values of x in [lo,hi] (native: identity).
func Concrete(x, lo, hi int) int { return x }

// ---- uninterpreted functions (native: tables from the solver's model) ----

func uf(name string, args ...uint64) uint64 {
	load()
	rows := rp.UF[name]
outer:
	for _, row := range rows {
		if len(row) != len(args)+1 {
			continue
		}
		for i, a := range args {
			v, _ := strconv.ParseUint(row[i], 16, 64)
			if v != a {
				continue outer
			}
		}
		v, _ := strconv.ParseUint(row[len(args)], 16, 64)
		return v
	}
	// value not fixed by the model: any value is consistent; use a total extension. For the
	// strict-weak-order relation RelInt the extension must stay a strict weak order on the values
	// seen, which the recorded table guarantees on the carrier; outside it we answer false.
	return 0
}

// RelInt is an arbitrary strict weak order, represented by an uninterpreted rank function.
func RelInt(a, b int) bool { return int64(uf("RankInt", uint64(a))) < int64(uf("RankInt", uint64(b))) }
func FnInt(a int) int          { return int(uf("FnInt", uint64(a))) }
func PredInt(a int) bool       { return uf("PredInt", uint64(a)) != 0 }
func Pred2Int(a, b int) bool   { return uf("Pred2Int", uint64(a), uint64(b)) != 0 }
func Fn2Int(a, b int) int      { return int(uf("Fn2Int", uint64(a), uint64(b))) }
func AssumeSWO(vals ...int)    {}

// ---- control ----

// Try runs f and reports whether it panicked.
func Try(f func()) (panicked bool) {
	defer func() {
		if r := recover(); r != nil {
			panicked = true
			lastPanic = fmt.Sprint(r)
		}
	}()
	f()
	return false
}

func LastPanic() string { return lastPanic }

// SameArray reports whether two slices share backing storage (overlapping capacity ranges).
func SameArray(a, b []int) bool {
	if cap(a) == 0 || cap(b) == 0 {
		return false
	}
	pa := uintptr(unsafe.Pointer(unsafe.SliceData(a[:cap(a)])))
	pb := uintptr(unsafe.Pointer(unsafe.SliceData(b[:cap(b)])))
	ea := pa + uintptr(cap(a))*unsafe.Sizeof(int(0))
	eb := pb + uintptr(cap(b))*unsafe.Sizeof(int(0))
	return pa < eb && pb < ea
}

func MapOrderMode(k int) {}
func Note(s string)      {}
func Share(p any)        {}
func ShareNoRaceCheck(p any) {}

// FiredCount is the number of timers the environment has fired so far.
func FiredCount() int { mu.Lock(); defer mu.Unlock(); return firedN }

// NoteFired is called by the time shim (native replay only).
func NoteFired() { mu.Lock(); firedN++; mu.Unlock() }

var firedN int

// Settle lets the background goroutines of the code under test run until they block (engine:
// exact; native replay: a short real sleep).
func Settle() { time.Sleep(30 * time.Millisecond) }

// PreemptBound limits the pre-emptive context switches per execution in the following Par
// (-1 = unbounded); a stated bound of the harness. Native: no effect (the search is guided).
func PreemptBound(k int) {}
func Yield()             { SchedYield() }
func LocksHeld() int     { return 0 }

// NowNano reads the clock (engine: a fresh symbolic instant >= all earlier ones; native replay:
// the next recorded instant, shared with the time shim).
func NowNano() int64 { return int64(next("clock")) }

// ResetHooks are run before every native re-execution of the harness (schedule search, loops).
var ResetHooks []func()

// AdvanceHook is installed by the time shim (native replay only).
var AdvanceHook func(all bool)

// Advance lets the environment fire any subset of the active timers (engine: every subset is
// explored; native: the recorded choices). Quiesce fires every remaining active timer.
func Advance() {
	if AdvanceHook != nil {
		AdvanceHook(false)
	}
}
func Quiesce() {
	if AdvanceHook != nil {
		AdvanceHook(true)
	}
}

// CallSpan is one call of a concurrent program: its thread and its begin/end stamps.
type CallSpan struct {
	Thread     int
	Begin, End int
}

// Orders returns every permutation of the calls that respects program order (calls of one thread
// stay in index order) and real-time order (a call that ended before another began comes first).
// Everything here is concrete on each explored path.
func Orders(calls []CallSpan) [][]int {
	n := len(calls)
	var out [][]int
	used := make([]bool, n)
	cur := make([]int, 0, n)
	var rec func()
	rec = func() {
		if len(cur) == n {
			out = append(out, append([]int(nil), cur...))
			return
		}
		for i := 0; i < n; i++ {
			if used[i] {
				continue
			}
			ok := true
			for j := 0; j < n; j++ {
				if used[j] || j == i {
					continue
				}
				// j is still unplaced: it must not be required to precede i
				if calls[j].Thread == calls[i].Thread && j < i {
					ok = false
				}
				if calls[j].End < calls[i].Begin {
					ok = false
				}
			}
			if !ok {
				continue
			}
			used[i] = true
			cur = append(cur, i)
			rec()
			cur = cur[:len(cur)-1]
			used[i] = false
		}
	}
	rec()
	return out
}

// ---- concurrent-program driver (shape S3), ordinary Go executed symbolically by the engine ----

// ConcRes is what one call returned; ConcCall one call of a program (kind + two arguments).
type ConcRes struct {
	V   int
	OK  bool
	Pan bool
}
type ConcCall struct {
	K    int
	X, Y int
	L    int // small concrete selector (key length / key index), chosen in [0, ConcSelectors)
}

// ConcSkipPrecheck: the harness knows the sequential code cannot panic on its programs and skips
// the sequential pre-run (used where every run forks on clock comparisons).
var ConcSkipPrecheck = false

// ConcSelectors is the number of values of ConcCall.L (1 = unused); set by the harness.
var ConcSelectors = 1

// ConcInst wraps one container instance behind its PUBLIC API.
type ConcInst interface {
	Apply(c ConcCall) ConcRes // performs the call (labels it with Note, wraps it in Try)
	Observe(keys []int) []int // observable contents afterwards (drain, or size + lookups of keys)
}

func ConcResEq(a, b ConcRes) bool { return And(a.V == b.V, a.OK == b.OK, a.Pan == b.Pan) }

// ConcProgram chooses the calls of each thread: shape 0 = 2 threads x 1 call (unordered pair of
// kinds), 1 = 3 x 1 (unordered triple), 2 = 2 x 2.
func ConcProgram(shape int, kinds []int) [][]ConcCall {
	if shape >= 1 && len(kinds) > 4 {
		kinds = kinds[:4] // the larger programs use the four principal operations
	}
	mk := func() ConcCall {
		c := ConcCall{K: kinds[Choice(len(kinds))], X: Int(), Y: Int()}
		if ConcSelectors > 1 {
			c.L = Choice(ConcSelectors)
		}
		return c
	}
	switch shape {
	case 0:
		a, b := mk(), mk()
		if b.K < a.K {
			Assume(false)
		}
		return [][]ConcCall{{a}, {b}}
	case 1:
		a, b, c := mk(), mk(), mk()
		if b.K < a.K || c.K < b.K {
			Assume(false)
		}
		return [][]ConcCall{{a}, {b}, {c}}
	}
	return [][]ConcCall{{mk(), mk()}, {mk(), mk()}}
}

// ConcKeys lists the keys worth looking up afterwards: the pre-state keys, every call's first
// argument and one fresh probe.
func ConcKeys(pre []int, prog [][]ConcCall) []int {
	keys := append([]int(nil), pre...)
	for _, cs := range prog {
		for _, c := range cs {
			keys = append(keys, c.X)
		}
	}
	return append(keys, Int())
}

// ConcShape: quick = pairs only; thorough = pairs, triples, 2x2.
func ConcShape() int { return Choice(Pick(1, ConcShapes)) }

// ConcShapes: how many program shapes the thorough tier explores for the type at hand (3 = pairs,
// triples and 2x2; 2 = pairs and triples; 1 = pairs only). Set by the harness; the larger shapes
// draw their calls from the first four operation kinds only.
var ConcShapes = 3

// ConcCheck runs prog concurrently on mk() under every schedule and checks: no call panics, no
// lock is left held, (lin) the results and the observable contents equal those of some sequential
// run of the same calls on an identical copy, in an order compatible with program order and the
// real-time order of this schedule; finally follow(q) must find the instance usable.
// pid is the property id used in the obligation names; share turns the race monitor on.
func ConcCheck(pid, name string, mk func() ConcInst, prog [][]ConcCall, keys []int, share, lin bool, follow func(q ConcInst) bool) {
	var flat []ConcCall
	var spans []CallSpan
	for t, cs := range prog {
		for _, c := range cs {
			flat = append(flat, c)
			spans = append(spans, CallSpan{Thread: t})
		}
	}
	// Programs on which the SEQUENTIAL code already panics (in some order of the calls) are outside
	// this check: that is a sequential defect, reported by the property that owns the operation.
	for _, ord := range Orders(spans) {
		if ConcSkipPrecheck {
			break
		}
		s := mk()
		for _, i := range ord {
			if s.Apply(flat[i]).Pan {
				return
			}
		}
	}
	res := make([]ConcRes, len(flat))
	q := mk()
	if share {
		Share(q) // shared instance, lock-discipline (race) monitor on
	} else {
		ShareNoRaceCheck(q) // shared instance; races are the other property's business
	}
	var fs []func()
	idx := 0
	for _, cs := range prog {
		lo, hi := idx, idx+len(cs)
		idx = hi
		fs = append(fs, func() {
			for i := lo; i < hi; i++ {
				spans[i].Begin = Stamp()
				res[i] = q.Apply(flat[i])
				spans[i].End = Stamp()
			}
		})
	}
	Par(fs...)
	if lin {
		// a panic that the same calls also raise when run one after the other is a sequential
		// defect (another property's business); only interleaving-induced panics count here
		ok := false
		final := q.Observe(keys)
		for _, ord := range Orders(spans) {
			s := mk()
			m := true
			for _, i := range ord {
				r := s.Apply(flat[i])
				m = And(m, ConcResEq(r, res[i]))
			}
			m = And(m, SeqEqInt(s.Observe(keys), final))
			ok = Or(ok, m)
		}
		for i := range res {
			Assert(!res[i].Pan, pid+"/"+name+"/no-panic-under-interleaving")
		}
		Assert(ok, pid+"/"+name+"/linearizable")
		return
	}
	for i := range res {
		Assert(!res[i].Pan, pid+"/"+name+"/no-panic-under-interleaving")
	}
	Assert(LocksHeld() == 0, pid+"/"+name+"/no-lock-left-held")
	Assert(follow(q), pid+"/"+name+"/usable-afterwards")
}

var stamp int

func Stamp() int { mu.Lock(); defer mu.Unlock(); stamp++; return stamp }

// ---- native scheduler (replay of concurrency counterexamples) ----
//
// ZV_SCHED=dfs: Par threads run one at a time under a cooperative scheduler whose decisions (at
// lock acquisitions, blocking operations and thread exits, through package zzvsync) are searched
// depth-first by RunSchedules, with the solver's concrete inputs, until the failure named by
// $ZV_TARGET occurs. Without ZV_SCHED, Par uses free-running goroutines (race-detector replays).

type nthread struct {
	id      int
	resume  chan struct{}
	done    bool
	waiting func() bool
	why     string
}

type schedAbort struct{ why string }

var (
	schedOn     bool   // set by RunSchedules from $ZV_SCHED
	schedTarget string // $ZV_TARGET
	nthreads    []*nthread
	ncur        *nthread
	nactive     bool
	nabort      bool
	dfsPrefix   []int
	dfsTrace    [][2]int
	dfsPos      int
	guidePos    int
	guideDev    bool // the native run could not follow the engine's schedule decision by decision
	otherFails  = map[string]bool{}
	parIter     int
)

func dfsChoose(n int) int {
	if n <= 1 {
		return 0
	}
	c := 0
	if dfsPos < len(dfsPrefix) {
		c = dfsPrefix[dfsPos]
		if c >= n {
			c = n - 1
		}
	}
	dfsPos++
	dfsTrace = append(dfsTrace, [2]int{c, n})
	return c
}

func (t *nthread) enabled() bool {
	if t.done {
		return false
	}
	return t.waiting == nil || t.waiting()
}

func npick(cur *nthread, curRunnable bool) *nthread {
	var en []*nthread
	for _, t := range nthreads {
		if t == cur && !curRunnable {
			continue
		}
		if t.enabled() {
			en = append(en, t)
		}
	}
	if len(en) == 0 {
		return nil
	}
	// Guidance: the engine recorded which thread it chose at each of its decisions. Put that thread
	// first, so the first native schedule follows the engine's as closely as the (slightly
	// different) decision points allow; the depth-first search explores the deviations.
	if guidePos < len(rp.Schedule) {
		want := rp.Schedule[guidePos]
		found := false
		for i, t := range en {
			if t.id == want {
				en[0], en[i] = en[i], en[0]
				guidePos++
				found = true
				break
			}
		}
		if !found {
			guideDev = true // the native decision points differ from the engine's here
		}
	} else {
		guideDev = true
	}
	return en[dfsChoose(len(en))]
}

func (t *nthread) park() {
	<-t.resume
	if nabort {
		if t.id == 0 {
			panic(schedAbort{"abort"})
		}
		select {} // abandoned thread of an aborted schedule
	}
	ncur = t
}

// SchedYield is a scheduling point at which the caller stays runnable.
func SchedYield() {
	if !nactive {
		return
	}
	me := ncur
	next := npick(me, true)
	if next == nil || next == me {
		return
	}
	next.resume <- struct{}{}
	me.park()
}

// SchedBlock suspends the caller until pred holds.
func SchedBlock(why string, pred func() bool) {
	if pred() {
		return
	}
	if !nactive {
		schedDeadlock("sequential code blocks forever on " + why)
	}
	me := ncur
	me.waiting, me.why = pred, why
	next := npick(me, false)
	if next == nil {
		schedDeadlock("no runnable thread (blocked on " + why + ")")
	}
	next.resume <- struct{}{}
	me.park()
	me.waiting, me.why = nil, ""
}

func schedDeadlock(msg string) {
	fmt.Println("ZV: deadlock:", msg)
	if schedTarget == "deadlock" || !schedOn {
		os.Exit(3)
	}
	otherFails["deadlock"] = true
	abortSchedule()
}

// abortSchedule abandons the current schedule: the main thread unwinds, the others stay parked.
func abortSchedule() {
	nabort = true
	if !nactive || ncur == nil || ncur.id == 0 {
		nactive = false
		panic(schedAbort{"abort"})
	}
	nthreads[0].resume <- struct{}{}
	select {}
}

func SchedFatal(msg string) {
	fmt.Println("fatal error:", msg)
	os.Exit(3)
}

func parSched(fs []func()) {
	main := &nthread{id: 0, resume: make(chan struct{}, 1)}
	nthreads = []*nthread{main}
	var kids []*nthread
	for i, f := range fs {
		k := &nthread{id: i + 1, resume: make(chan struct{}, 1)}
		nthreads = append(nthreads, k)
		kids = append(kids, k)
		go func(k *nthread, f func()) {
			k.park()
			f()
			k.done = true
			next := npick(k, false)
			if next == nil {
				schedDeadlock("all remaining threads blocked")
			}
			next.resume <- struct{}{}
		}(k, f)
	}
	nactive, ncur = true, main
	main.waiting = func() bool {
		for _, k := range kids {
			if !k.done {
				return false
			}
		}
		return true
	}
	next := npick(main, false)
	if next != nil && next != main {
		next.resume <- struct{}{}
		main.park()
	}
	main.waiting = nil
	nactive = false
}

// Par runs the functions concurrently.
func Par(fs ...func()) {
	if schedOn {
		parSched(fs)
		return
	}
	parIter++
	var wg sync.WaitGroup
	start := make(chan struct{})
	for i := range fs {
		j := i
		if parIter%2 == 0 {
			j = len(fs) - 1 - i
		}
		wg.Add(1)
		spin := (parIter / 2 * (i + 1)) % 5
		go func(f func()) {
			defer wg.Done()
			<-start
			for k := 0; k < spin; k++ {
				runtime.Gosched() // vary which goroutine gets ahead
			}
			f()
		}(fs[j])
	}
	close(start)
	wg.Wait()
}

// RunSchedules runs the harness once per schedule (depth-first over the scheduler's decisions)
// in ZV_SCHED=dfs mode, ZV_LOOP times in free-running mode, once otherwise.
func RunSchedules(harness func()) {
	schedOn = os.Getenv("ZV_SCHED") == "dfs" || os.Getenv("ZV_SCHED") == "guided"
	schedTarget = os.Getenv("ZV_TARGET")
	once := os.Getenv("ZV_SCHED") == "guided" // one run following the engine's schedule
	resetInputs := func() {
		mu.Lock()
		ni, ci, stamp, nAsserts, firedN = 0, 0, 0, 0, 0
		mu.Unlock()
		for _, h := range ResetHooks {
			h()
		}
	}
	if !schedOn {
		n, _ := strconv.Atoi(os.Getenv("ZV_LOOP"))
		if n < 1 {
			n = 1
		}
		for i := 0; i < n; i++ {
			resetInputs()
			harness()
		}
		return
	}
	runs := 0
	for {
		runs++
		resetInputs()
		dfsTrace, dfsPos, nabort, nactive, guidePos, guideDev = nil, 0, false, false, 0, false
		func() {
			defer func() {
				if r := recover(); r != nil {
					if _, ok := r.(schedAbort); ok {
						return
					}
					panic(r)
				}
			}()
			harness()
		}()
		// next prefix
		i := len(dfsTrace) - 1
		for i >= 0 && dfsTrace[i][0]+1 >= dfsTrace[i][1] {
			i--
		}
		if i < 0 || runs > 200000 || once {
			break
		}
		dfsPrefix = dfsPrefix[:0]
		for j := 0; j < i; j++ {
			dfsPrefix = append(dfsPrefix, dfsTrace[j][0])
		}
		dfsPrefix = append(dfsPrefix, dfsTrace[i][0]+1)
	}
	fmt.Printf("ZV: schedules explored natively: %d; other failures seen: %v\n", runs, otherFails)
}

// ---- Go models of library functions, executed symbolically by the engine in place of the
// assembly-backed originals (contract: same results as package strings) ----

func ModelRepeat(s string, count int) string {
	if count < 0 {
		panic("strings: negative Repeat count")
	}
	out := ""
	for i := 0; i < count; i++ {
		out += s
	}
	return out
}

func ModelIndex(s, sub string) int {
	n := len(sub)
	for i := 0; i+n <= len(s); i++ {
		if StrEq(s[i:i+n], sub) {
			return i
		}
	}
	return -1
}

func ModelLastIndex(s, sub string) int {
	n := len(sub)
	for i := len(s) - n; i >= 0; i-- {
		if StrEq(s[i:i+n], sub) {
			return i
		}
	}
	return -1
}

func isSpaceASCII(c byte) bool {
	return Or(c == ' ', c == '\t', c == '\n', c == '\v', c == '\f', c == '\r')
}

// ModelTrimSpace handles ASCII white space exactly; U+0085 and U+00A0 (the only non-ASCII
// white space below U+0800) are handled as 2-byte sequences.
func ModelTrimSpace(s string) string {
	start, end := 0, len(s)
	for start < end {
		if isSpaceASCII(s[start]) {
			start++
			continue
		}
		if start+1 < end && s[start] == 0xC2 && Or(s[start+1] == 0x85, s[start+1] == 0xA0) {
			start += 2
			continue
		}
		break
	}
	for start < end {
		if isSpaceASCII(s[end-1]) {
			end--
			continue
		}
		if end-2 >= start && s[end-2] == 0xC2 && Or(s[end-1] == 0x85, s[end-1] == 0xA0) {
			end -= 2
			continue
		}
		break
	}
	return s[start:end]
}

func ModelSplit(s, sep string) []string {
	if sep == "" {
		panic("ModelSplit: empty separator not modelled")
	}
	var out []string
	for {
		i := ModelIndex(s, sep)
		if i < 0 {
			break
		}
		out = append(out, s[:i])
		s = s[i+len(sep):]
	}
	return append(out, s)
}

var _ = strings.Repeat
