package btree

// C10 — S2: bounded Put/Remove/Get histories from New through the public API against an
// association-list model kept as solver terms; the final Traverse and Height are checked too.

import (
	vrt "github.com/esimov/gogu/zzvrt"
)

type zvEnt struct {
	k, v int
	live bool
	ever bool // entry slot in use (distinct key ever inserted)
}

func ZvC10_S2_History() {
	t := New[int, int]()
	var m []zvEnt
	steps := vrt.Choice(vrt.Pick(4, 5)) + 1
	for s := 0; s < steps; s++ {
		switch vrt.Choice(3) {
		case 0:
			k, v := vrt.Int(), vrt.Int()
			t.Put(k, v)
			any := false
			for i := range m {
				hit := vrt.And(m[i].ever, m[i].k == k)
				any = vrt.Or(any, hit)
				m[i].v = vrt.Ite(hit, v, m[i].v)
				m[i].live = vrt.Or(m[i].live, hit)
			}
			m = append(m, zvEnt{k, v, !any, !any})
		case 1:
			k := vrt.Int()
			t.Remove(k)
			for i := range m {
				m[i].live = vrt.And(m[i].live, m[i].k != k)
			}
		case 2:
			q := vrt.Int()
			v, ok := t.Get(q)
			found, val := false, 0
			for i := range m {
				hit := vrt.And(m[i].live, m[i].k == q)
				found = vrt.Or(found, hit)
				val = vrt.Ite(hit, m[i].v, val)
			}
			vrt.Assert(ok == found, "C10/S2/Get-found-iff-present")
			vrt.Assert(vrt.Implies(found, v == val), "C10/S2/Get-last-value")
		}
		sz, distinct := 0, 0
		for i := range m {
			sz += vrt.B2I(m[i].live)
			distinct += vrt.B2I(m[i].ever)
		}
		vrt.Assert(vrt.And(t.Size() == sz, t.IsEmpty() == (sz == 0)), "C10/S2/Size")
		// Height <= log2(max(1, distinct keys ever inserted)):  2^Height <= max(1, distinct)
		h := t.Height()
		vrt.Assert(vrt.And(h >= 0, h <= 3), "C10/S2/Height-sane")
		p := 1
		for i := 0; i < h && i < 3; i++ {
			p *= 2
		}
		vrt.Assert(vrt.Or(p == 1, p <= distinct), "C10/S2/Height-at-most-log2-of-distinct-keys")
	}
	var gk []int
	t.Traverse(func(k, v int) { gk = append(gk, k) })
	ok := true
	for i := 0; i+1 < len(gk); i++ {
		ok = vrt.And(ok, gk[i] < gk[i+1])
	}
	vrt.Assert(ok, "C10/S2/Traverse-ascending")
	q := vrt.Int()
	found := false
	for i := range m {
		found = vrt.Or(found, vrt.And(m[i].live, m[i].k == q))
	}
	vrt.Assert(vrt.CountInt(gk, q) == vrt.B2I(found), "C10/S2/Traverse-exactly-present-keys-once")
	if t.Height() >= 1 {
		vrt.Cover("C10/S2/split-occurred")
	}
	vrt.Cover("C10/S2/end")
}

// ZvC10_LongRun: one long scenario beyond the height bound — 40 keys put in ascending or descending
// order (the tree reaches height 3 or more), every second key removed, then Get of every key,
// Traverse, Size and the height bound. Keys are concrete (nothing forks), values symbolic.
func ZvC10_LongRun() {
	const N = 40
	desc := vrt.Choice(2) == 1
	t := New[int, int]()
	vals := make([]int, N+1)
	for i := 1; i <= N; i++ {
		k := i
		if desc {
			k = N + 1 - i
		}
		vals[k] = vrt.Int()
		t.Put(k, vals[k])
	}
	vrt.Assert(t.Size() == N, "C10/long-run/Size-after-puts")
	p := 1
	for i := 0; i < t.Height(); i++ {
		p *= 2
	}
	vrt.Assert(vrt.And(t.Height() >= 2, p <= N), "C10/long-run/height-at-most-log2-of-entries")
	for k := 2; k <= N; k += 2 {
		t.Remove(k)
	}
	vrt.Assert(t.Size() == N/2, "C10/long-run/Size-after-removes")
	for k := 1; k <= N; k++ {
		v, ok := t.Get(k)
		if k%2 == 1 {
			vrt.Assert(vrt.And(ok, v == vals[k]), "C10/long-run/Get-live-key")
		} else {
			vrt.Assert(!ok, "C10/long-run/Get-removed-key")
		}
	}
	var gk, gv []int
	t.Traverse(func(k, v int) { gk = append(gk, k); gv = append(gv, v) })
	vrt.Assert(len(gk) == N/2, "C10/long-run/Traverse-visits-live-keys")
	ok := true
	for i := range gk {
		ok = vrt.And(ok, gk[i] == 2*i+1, gv[i] == vals[2*i+1])
	}
	vrt.Assert(ok, "C10/long-run/Traverse-ascending-with-values")
	// a removed key can be put again
	y := vrt.Int()
	t.Put(2, y)
	v, found := t.Get(2)
	vrt.Assert(vrt.And(found, v == y, t.Size() == N/2+1), "C10/long-run/re-put-of-a-removed-key")
}
