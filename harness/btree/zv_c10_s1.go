package btree

// C10 — S1: one real operation from an ARBITRARY valid B-tree (every shape of height <= H whose
// non-root nodes hold 2-3 entries, symbolic ascending keys, symbolic values and tombstone flags),
// checked against the ordered-map contract and the structural (balance) invariant.
// Touches unexported fields.

import (
	vrt "github.com/esimov/gogu/zzvrt"
)

type zvAbs struct {
	keys, vals []int
	rem        []bool
}

// zvGenNode builds a subtree of height h. prev points at the last leaf key generated so far (nil at
// the start); every new leaf key is strictly greater. Returns the node and its first leaf key.
// zvFill, when non-nil, fixes the number of entries of every non-root node per level (index = height
// of the node): used for height-2 trees, where every fill pattern of every node (1 872 shapes with
// up to 27 symbolic keys) is out of reach. What an operation does depends on the fill of the nodes
// on ITS path, and with level-wide fills every combination (2|3)^3 along a path occurs, at every
// key position.
var zvFill []int

func zvGenNode(h int, isRoot bool, prev **int, a *zvAbs) (*node[int, int], int) {
	n := &node[int, int]{}
	first := 0
	if h == 0 {
		lo := 2
		if isRoot {
			lo = 0
		}
		if zvFill != nil && !isRoot {
			n.m = zvFill[0]
		} else {
			n.m = lo + vrt.Choice(4-lo)
		}
		for i := 0; i < n.m; i++ {
			k, v, r := vrt.Int(), vrt.Int(), vrt.Bool()
			if *prev != nil {
				vrt.Assume(**prev < k)
			}
			kk := k
			*prev = &kk
			n.children[i] = entry[int, int]{key: k, value: v, isRemoved: r}
			a.keys, a.vals, a.rem = append(a.keys, k), append(a.vals, v), append(a.rem, r)
			if i == 0 {
				first = k
			}
		}
		return n, first
	}
	if zvFill != nil && !isRoot {
		n.m = zvFill[h]
	} else {
		n.m = 2 + vrt.Choice(2)
	}
	for i := 0; i < n.m; i++ {
		c, f := zvGenNode(h-1, false, prev, a)
		key := f
		if i == 0 {
			first = f
			key = vrt.Int() // entry 0 of an internal node is never read: unconstrained, as reachable
		}
		n.children[i] = entry[int, int]{key: key, next: c}
	}
	return n, first
}

func zvTree() (*BTree[int, int], *zvAbs) {
	h := vrt.Choice(vrt.Pick(1, 2) + 1)
	zvFill = nil
	if h == 2 {
		zvFill = []int{2 + vrt.Choice(2), 2 + vrt.Choice(2), 0}
	}
	a := &zvAbs{}
	var prev *int
	root, _ := zvGenNode(h, true, &prev, a)
	live := 0
	for _, r := range a.rem {
		live += vrt.B2I(!r)
	}
	return &BTree[int, int]{root: root, n: live, height: h}, a
}

// zvWalk collects the leaf sequence and checks the structural invariant below nd.
func zvWalk(nd *node[int, int], h int, isRoot bool, a *zvAbs, ok *bool) int {
	if nd == nil {
		*ok = false
		return 0
	}
	first := 0
	if h == 0 {
		lo := 2
		if isRoot {
			lo = 0
		}
		if nd.m < lo || nd.m > 3 {
			*ok = false
		}
		for i := 0; i < nd.m && i < 4; i++ {
			e := nd.children[i]
			if e.next != nil {
				*ok = false
			}
			a.keys, a.vals, a.rem = append(a.keys, e.key), append(a.vals, e.value), append(a.rem, e.isRemoved)
			if i == 0 {
				first = e.key
			}
		}
		return first
	}
	if nd.m < 2 || nd.m > 3 {
		*ok = false
	}
	for i := 0; i < nd.m && i < 4; i++ {
		f := zvWalk(nd.children[i].next, h-1, false, a, ok)
		if i == 0 {
			first = f
		} else {
			*ok = vrt.And(*ok, nd.children[i].key == f) // separator = first key of its subtree
		}
	}
	return first
}

func zvPost(t *BTree[int, int], id string) *zvAbs {
	a := &zvAbs{}
	ok := true
	if t.height < 0 || t.height > 4 {
		vrt.Assert(false, id+"/height-sane")
		return a
	}
	zvWalk(t.root, t.height, true, a, &ok)
	for i := 0; i+1 < len(a.keys); i++ {
		ok = vrt.And(ok, a.keys[i] < a.keys[i+1])
	}
	vrt.Assert(ok, id+"/structure: uniform depth, 2-3 entries per non-root node, ascending keys, exact separators")
	// balance: 2^height <= max(1, #entries) — follows from the fill invariant, asserted anyway
	p := 1
	for i := 0; i < t.height; i++ {
		p *= 2
	}
	m := len(a.keys)
	if m < 1 {
		m = 1
	}
	vrt.Assert(p <= m, id+"/height-at-most-log2-of-entries")
	return a
}

func (a *zvAbs) lookup(q int) (found bool, live bool, val int) {
	for i := range a.keys {
		hit := a.keys[i] == q
		found = vrt.Or(found, hit)
		live = vrt.Or(live, vrt.And(hit, !a.rem[i]))
		val = vrt.Ite(hit, a.vals[i], val)
	}
	return
}

func (a *zvAbs) liveCount() int {
	c := 0
	for _, r := range a.rem {
		c += vrt.B2I(!r)
	}
	return c
}

func ZvC10_S1_New() {
	t := New[int, int]()
	a := zvPost(t, "C10/New")
	_, ok := t.Get(vrt.Int())
	vrt.Assert(vrt.And(len(a.keys) == 0, t.Size() == 0, t.IsEmpty(), t.Height() == 0, !ok), "C10/New/empty")
}

func ZvC10_S1_Get() {
	t, a := zvTree()
	q := vrt.Int()
	var v int
	var ok bool
	vrt.Assert(!vrt.Try(func() { v, ok = t.Get(q) }), "C10/Get/no-panic")
	_, live, val := a.lookup(q)
	vrt.Assert(ok == live, "C10/Get/found-iff-put-and-not-removed")
	vrt.Assert(vrt.Implies(vrt.And(ok, live), v == val), "C10/Get/last-value")
	vrt.Assert(vrt.And(t.Size() == a.liveCount(), t.IsEmpty() == (a.liveCount() == 0)), "C10/Size-IsEmpty")
	if t.height >= 1 {
		vrt.Cover("C10/Get/internal-root")
	}
}

func ZvC10_S1_Put() {
	t, a := zvTree()
	k, v := vrt.Int(), vrt.Int()
	h0 := t.height
	vrt.Assert(!vrt.Try(func() { t.Put(k, v) }), "C10/Put/no-panic")
	p := zvPost(t, "C10/Put")
	found0, live0, _ := a.lookup(k)
	vrt.Assert(len(p.keys) == len(a.keys)+vrt.B2I(!found0), "C10/Put/entry-count")
	q := vrt.Int()
	f0, l0, v0 := a.lookup(q)
	f1, l1, v1 := p.lookup(q)
	vrt.Assert(f1 == vrt.Or(f0, q == k), "C10/Put/keys")
	vrt.Assert(l1 == vrt.Or(l0, q == k), "C10/Put/liveness")
	vrt.Assert(vrt.Implies(f1, v1 == vrt.Ite(q == k, v, v0)), "C10/Put/values")
	vrt.Assert(t.Size() == p.liveCount(), "C10/Put/Size-counts-live-keys")
	_ = live0
	vrt.Assert(vrt.And(t.height >= h0, t.height <= h0+1, t.Height() == t.height), "C10/Put/height-grows-by-at-most-one")
	if t.height > h0 {
		vrt.Cover("C10/Put/root-split")
	}
}

func ZvC10_S1_Remove() {
	t, a := zvTree()
	k := vrt.Int()
	h0 := t.height
	vrt.Assert(!vrt.Try(func() { t.Remove(k) }), "C10/Remove/no-panic")
	p := zvPost(t, "C10/Remove")
	vrt.Assert(vrt.And(len(p.keys) == len(a.keys), t.height == h0), "C10/Remove/structure-unchanged")
	q := vrt.Int()
	f0, l0, v0 := a.lookup(q)
	f1, l1, v1 := p.lookup(q)
	vrt.Assert(f1 == f0, "C10/Remove/keys")
	vrt.Assert(l1 == vrt.And(l0, q != k), "C10/Remove/only-that-key-becomes-absent")
	vrt.Assert(vrt.Implies(l1, v1 == v0), "C10/Remove/other-values-unchanged")
	vrt.Assert(t.Size() == p.liveCount(), "C10/Remove/Size-counts-live-keys")
	_, ok := t.Get(k)
	vrt.Assert(!ok, "C10/Remove/Get-reports-absence-afterwards")
}

func ZvC10_S1_Traverse() {
	t, a := zvTree()
	var gk, gv []int
	vrt.Assert(!vrt.Try(func() { t.Traverse(func(k, v int) { gk = append(gk, k); gv = append(gv, v) }) }), "C10/Traverse/no-panic")
	var wk, wv []int
	for i := range a.keys {
		if !a.rem[i] {
			wk, wv = append(wk, a.keys[i]), append(wv, a.vals[i])
		}
	}
	vrt.Assert(vrt.And(vrt.SeqEqInt(gk, wk), vrt.SeqEqInt(gv, wv)), "C10/Traverse/live-keys-once-ascending-with-values")
}
