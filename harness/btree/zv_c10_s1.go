package btree

// C10 — S1: one real operation from an ARBITRARY valid B-tree (every shape of height <= H whose
// non-root nodes hold 2-3 entries, symbolic ascending keys, symbolic values and tombstone flags),
// checked against the ordered-map contract and the structural (balance) invariant.
// Touches unexported fields.

import (
	vrt "github.com/esimov/gogu/zzvrt"
)

type zvAbs struct {
	keys, vals []int
	rem        []bool
}

// zvGenNode builds a subtree of height h. prev points at the last leaf key generated so far (nil at
// the start); every new leaf key is strictly greater. Returns the node and its first leaf key.
// zvFill, when non-nil, fixes the number of entries of every non-root node per level (index = height
// of the node): used for height-2 trees, where every fill pattern of every node (1 872 shapes with
// up to 27 symbolic keys) is out of reach. What an operation does depends on the fill of the nodes
// on ITS path, and with level-wide fills every combination (2|3)^3 along a path occurs, at every
// key position.
var zvFill []int
var zvRootM int

// zvTombAt: -2 = every leaf entry has a symbolic tombstone flag (default); otherwise the flags are
// concrete and only the leaf entry with this index (in key order; -1 = none) is a tombstone.
var zvTombAt = -2

func zvGenNode(h int, isRoot bool, prev **int, a *zvAbs) (*node[int, int], int) {
	n := &node[int, int]{}
	first := 0
	if h == 0 {
		lo := 2
		if isRoot {
			lo = 0
		}
		if zvFill != nil && !isRoot {
			n.m = zvFill[0]
		} else {
			n.m = lo + vrt.Choice(4-lo)
		}
		for i := 0; i < n.m; i++ {
			k, v, r := vrt.Int(), vrt.Int(), false
			if zvTombAt == -2 {
				r = vrt.Bool()
			} else {
				r = len(a.keys) == zvTombAt // concrete: at most the chosen entry is a tombstone
			}
			if *prev != nil {
				vrt.Assume(**prev < k)
			}
			kk := k
			*prev = &kk
			n.children[i] = entry[int, int]{key: k, value: v, isRemoved: r}
			a.keys, a.vals, a.rem = append(a.keys, k), append(a.vals, v), append(a.rem, r)
			if i == 0 {
				first = k
			}
		}
		return n, first
	}
	if zvFill != nil && !isRoot {
		n.m = zvFill[h]
	} else if zvFill != nil && isRoot && zvRootM > 0 {
		n.m = zvRootM
	} else {
		n.m = 2 + vrt.Choice(2)
	}
	for i := 0; i < n.m; i++ {
		c, f := zvGenNode(h-1, false, prev, a)
		key := f
		if i == 0 {
			first = f
			key = vrt.Int() // entry 0 of an internal node is never read: unconstrained, as reachable
		}
		n.children[i] = entry[int, int]{key: key, next: c}
	}
	return n, first
}

func zvTree() (*BTree[int, int], *zvAbs) { return zvTreeH(vrt.Pick(1, 2)) }

// zvTreeH: every height up to hmax. Harnesses whose operation forks on every tombstone flag
// (Traverse: 2^18 patterns at height 2) stay at height <= 1 in both tiers.
func zvTreeH(hmax int) (*BTree[int, int], *zvAbs) {
	h := vrt.Choice(hmax + 1)
	zvFill, zvRootM = nil, 0
	if h == 2 {
		// (leaf fill, middle fill) in {(2,2), (3,3)} under a 2-entry root: 8 and 18 keys; under full
		// nodes a leaf split cascades into the root. (A 3-entry root over full nodes has 27 keys and does not finish.)
		switch vrt.Choice(2) {
		case 0:
			zvFill = []int{2, 2, 0}
		default:
			zvFill = []int{3, 3, 0}
		}
		zvRootM = 2
	}
	a := &zvAbs{}
	var prev *int
	root, _ := zvGenNode(h, true, &prev, a)
	live := 0
	for _, r := range a.rem {
		live += vrt.B2I(!r)
	}
	return &BTree[int, int]{root: root, n: live, height: h}, a
}

// zvWalk collects the leaf sequence and checks the structural invariant below nd.
func zvWalk(nd *node[int, int], h int, isRoot bool, a *zvAbs, ok *bool) int {
	if nd == nil {
		*ok = false
		return 0
	}
	first := 0
	if h == 0 {
		lo := 2
		if isRoot {
			lo = 0
		}
		if nd.m < lo || nd.m > 3 {
			*ok = false
		}
		for i := 0; i < nd.m && i < 4; i++ {
			e := nd.children[i]
			if e.next != nil {
				*ok = false
			}
			a.keys, a.vals, a.rem = append(a.keys, e.key), append(a.vals, e.value), append(a.rem, e.isRemoved)
			if i == 0 {
				first = e.key
			}
		}
		return first
	}
	if nd.m < 2 || nd.m > 3 {
		*ok = false
	}
	for i := 0; i < nd.m && i < 4; i++ {
		f := zvWalk(nd.children[i].next, h-1, false, a, ok)
		if i == 0 {
			first = f
		} else {
			*ok = vrt.And(*ok, nd.children[i].key == f) // separator = first key of its subtree
		}
	}
	return first
}

func zvPost(t *BTree[int, int], id string) *zvAbs {
	a := &zvAbs{}
	ok := true
	if t.height < 0 || t.height > 4 {
		vrt.Assert(false, id+"/height-sane")
		return a
	}
	zvWalk(t.root, t.height, true, a, &ok)
	for i := 0; i+1 < len(a.keys); i++ {
		ok = vrt.And(ok, a.keys[i] < a.keys[i+1])
	}
	vrt.Assert(ok, id+"/structure: uniform depth, 2-3 entries per non-root node, ascending keys, exact separators")
	// balance: 2^height <= max(1, #entries) — follows from the fill invariant, asserted anyway
	p := 1
	for i := 0; i < t.height; i++ {
		p *= 2
	}
	m := len(a.keys)
	if m < 1 {
		m = 1
	}
	vrt.Assert(p <= m, id+"/height-at-most-log2-of-entries")
	return a
}

func (a *zvAbs) lookup(q int) (found bool, live bool, val int) {
	for i := range a.keys {
		hit := a.keys[i] == q
		found = vrt.Or(found, hit)
		live = vrt.Or(live, vrt.And(hit, !a.rem[i]))
		val = vrt.Ite(hit, a.vals[i], val)
	}
	return
}

func (a *zvAbs) liveCount() int {
	c := 0
	for _, r := range a.rem {
		c += vrt.B2I(!r)
	}
	return c
}

func ZvC10_S1_New() {
	t := New[int, int]()
	a := zvPost(t, "C10/New")
	_, ok := t.Get(vrt.Int())
	vrt.Assert(vrt.And(len(a.keys) == 0, t.Size() == 0, t.IsEmpty(), t.Height() == 0, !ok), "C10/New/empty")
}

func ZvC10_S1_Get() {
	t, a := zvTree()
	q := vrt.Int()
	var v int
	var ok bool
	vrt.Assert(!vrt.Try(func() { v, ok = t.Get(q) }), "C10/Get/no-panic")
	_, live, val := a.lookup(q)
	vrt.Assert(ok == live, "C10/Get/found-iff-put-and-not-removed")
	vrt.Assert(vrt.Implies(vrt.And(ok, live), v == val), "C10/Get/last-value")
	vrt.Assert(vrt.And(t.Size() == a.liveCount(), t.IsEmpty() == (a.liveCount() == 0)), "C10/Size-IsEmpty")
	if t.height >= 1 {
		vrt.Cover("C10/Get/internal-root")
	}
}

func ZvC10_S1_Put() {
	t, a := zvTree()
	k, v := vrt.Int(), vrt.Int()
	h0 := t.height
	vrt.Assert(!vrt.Try(func() { t.Put(k, v) }), "C10/Put/no-panic")
	p := zvPost(t, "C10/Put")
	found0, live0, _ := a.lookup(k)
	vrt.Assert(len(p.keys) == len(a.keys)+vrt.B2I(!found0), "C10/Put/entry-count")
	q := vrt.Int()
	f0, l0, v0 := a.lookup(q)
	f1, l1, v1 := p.lookup(q)
	vrt.Assert(f1 == vrt.Or(f0, q == k), "C10/Put/keys")
	vrt.Assert(l1 == vrt.Or(l0, q == k), "C10/Put/liveness")
	vrt.Assert(vrt.Implies(f1, v1 == vrt.Ite(q == k, v, v0)), "C10/Put/values")
	vrt.Assert(t.Size() == p.liveCount(), "C10/Put/Size-counts-live-keys")
	_ = live0
	vrt.Assert(vrt.And(t.height >= h0, t.height <= h0+1, t.Height() == t.height), "C10/Put/height-grows-by-at-most-one")
	if t.height > h0 {
		vrt.Cover("C10/Put/root-split")
	}
}

// zvTraverseAgrees: the public Traverse, run on the state an operation left behind, yields exactly
// the live leaf entries of that state in order (whatever the operation wrote into internal nodes).
func zvTraverseAgrees(t *BTree[int, int], p *zvAbs, id string) {
	var gk, gv []int
	vrt.Assert(!vrt.Try(func() { t.Traverse(func(k, v int) { gk = append(gk, k); gv = append(gv, v) }) }), id+"/no-panic")
	// compare as a filtered sequence without forking on the (symbolic) tombstone flags
	q := vrt.Int()
	cnt, val := 0, 0
	for i := range p.keys {
		hit := vrt.And(!p.rem[i], p.keys[i] == q)
		cnt += vrt.B2I(hit)
		val = vrt.Ite(hit, p.vals[i], val)
	}
	gcnt, gval := 0, 0
	for i := range gk {
		hit := gk[i] == q
		gcnt += vrt.B2I(hit)
		gval = vrt.Ite(hit, gv[i], gval)
	}
	asc := true
	for i := 0; i+1 < len(gk); i++ {
		asc = vrt.And(asc, gk[i] < gk[i+1])
	}
	vrt.Assert(vrt.And(asc, gcnt == cnt, vrt.Implies(cnt > 0, gval == val), len(gk) == p.liveCount()), id+"/live-keys-once-ascending-with-values")
}

func ZvC10_S1_Remove() {
	t, a := zvTree()
	k := vrt.Int()
	h0 := t.height
	vrt.Assert(!vrt.Try(func() { t.Remove(k) }), "C10/Remove/no-panic")
	p := zvPost(t, "C10/Remove")
	vrt.Assert(vrt.And(len(p.keys) == len(a.keys), t.height == h0), "C10/Remove/structure-unchanged")
	q := vrt.Int()
	f0, l0, v0 := a.lookup(q)
	f1, l1, v1 := p.lookup(q)
	vrt.Assert(f1 == f0, "C10/Remove/keys")
	vrt.Assert(l1 == vrt.And(l0, q != k), "C10/Remove/only-that-key-becomes-absent")
	vrt.Assert(vrt.Implies(l1, v1 == v0), "C10/Remove/other-values-unchanged")
	vrt.Assert(t.Size() == p.liveCount(), "C10/Remove/Size-counts-live-keys")
	_, ok := t.Get(k)
	vrt.Assert(!ok, "C10/Remove/Get-reports-absence-afterwards")
}

func ZvC10_S1_Traverse() {
	t, a := zvTreeH(1)
	var gk, gv []int
	vrt.Assert(!vrt.Try(func() { t.Traverse(func(k, v int) { gk = append(gk, k); gv = append(gv, v) }) }), "C10/Traverse/no-panic")
	var wk, wv []int
	for i := range a.keys {
		if !a.rem[i] {
			wk, wv = append(wk, a.keys[i]), append(wv, a.vals[i])
		}
	}
	vrt.Assert(vrt.And(vrt.SeqEqInt(gk, wk), vrt.SeqEqInt(gv, wv)), "C10/Traverse/live-keys-once-ascending-with-values")
}

// zvSmallTree: a leaf root with 0..3 entries (two Puts on a full leaf split it and grow the tree).
// Thorough tier only. Two operations from every height-1 shape with up to 9 symbolic
// keys do not finish in an hour: the ordering queries over a dozen 64-bit keys take z3 seconds each.
func zvSmallTree() (*BTree[int, int], *zvAbs) {
	h := 0 // leaf root only
	zvFill = []int{2, 0, 0}
	a := &zvAbs{}
	var prev *int
	var root *node[int, int]
	if h == 0 {
		zvFill = nil
		root, _ = zvGenNode(0, true, &prev, a)
	} else {
		root = &node[int, int]{m: 2}
		for i := 0; i < root.m; i++ {
			c, f := zvGenNode(0, false, &prev, a)
			key := f
			if i == 0 {
				key = vrt.Int()
			}
			root.children[i] = entry[int, int]{key: key, next: c}
		}
	}
	zvFill = nil
	live := 0
	for _, r := range a.rem {
		live += vrt.B2I(!r)
	}
	return &BTree[int, int]{root: root, n: live, height: h}, a
}

// ZvC10_S1_PutThenTraverse: a Put (which may split nodes and write separators) followed by the
// public Traverse. Tombstone flags are concrete here — none, or exactly one at every position — so
// that Traverse does not fork on them; keys and the inserted key stay symbolic.
func ZvC10_S1_PutThenTraverse() {
	zvTombAt = vrt.Choice(10) - 1
	t, a := zvTreeH(1)
	at := zvTombAt
	zvTombAt = -2
	if at >= len(a.keys) {
		return // more positions than entries: same state as "none"
	}
	k, v := vrt.Int(), vrt.Int()
	vrt.Assert(!vrt.Try(func() { t.Put(k, v) }), "C10/Put/no-panic")
	p := zvPost(t, "C10/PutThenTraverse")
	zvTraverseAgrees(t, p, "C10/Put/then-Traverse")
}

// ZvC10_S1_TwoSteps: two mutators in a row from an arbitrary valid tree, then observation through
// the public API only (Traverse, Get of a probe, Size). One inductive step cannot see what an
// operation leaves behind outside the abstract value and the structural invariant (counters,
// caches, recycled nodes) that a LATER operation trusts.
func ZvC10_S1_TwoSteps() {
	if vrt.Tier() == 0 {
		return // thorough tier only: ~3 min
	}
	t, a := zvSmallTree()
	type ent struct {
		k, v int
		live bool
	}
	var m []ent
	for i := range a.keys {
		m = append(m, ent{a.keys[i], a.vals[i], !a.rem[i]})
	}
	for s := 0; s < 2; s++ {
		if vrt.Choice(2) == 0 {
			k, v := vrt.Int(), vrt.Int()
			vrt.Assert(!vrt.Try(func() { t.Put(k, v) }), "C10/TwoSteps/no-panic")
			any := false
			for i := range m {
				hit := m[i].k == k
				any = vrt.Or(any, hit)
				m[i].v = vrt.Ite(hit, v, m[i].v)
				m[i].live = vrt.Or(m[i].live, hit)
			}
			m = append(m, ent{k, v, !any})
		} else {
			k := vrt.Int()
			vrt.Assert(!vrt.Try(func() { t.Remove(k) }), "C10/TwoSteps/no-panic")
			for i := range m {
				m[i].live = vrt.And(m[i].live, m[i].k != k)
			}
		}
	}
	var gk, gv []int
	vrt.Assert(!vrt.Try(func() { t.Traverse(func(k, v int) { gk = append(gk, k); gv = append(gv, v) }) }), "C10/TwoSteps/no-panic")
	asc := true
	for i := 0; i+1 < len(gk); i++ {
		asc = vrt.And(asc, gk[i] < gk[i+1])
	}
	vrt.Assert(asc, "C10/TwoSteps/Traverse-ascending-without-repeats")
	q := vrt.Int()
	found, val := false, 0
	for i := range m {
		hit := vrt.And(m[i].live, m[i].k == q)
		found = vrt.Or(found, hit)
		val = vrt.Ite(hit, m[i].v, val)
	}
	tf, tv := false, 0
	for i := range gk {
		hit := gk[i] == q
		tf = vrt.Or(tf, hit)
		tv = vrt.Ite(hit, gv[i], tv)
	}
	vrt.Assert(vrt.And(tf == found, vrt.Implies(found, tv == val)), "C10/TwoSteps/Traverse-yields-exactly-the-live-keys-with-current-values")
	v, ok := t.Get(q)
	vrt.Assert(vrt.And(ok == found, vrt.Implies(found, v == val)), "C10/TwoSteps/Get-agrees")
	vrt.Assert(vrt.And(t.Size() == len(gk), t.IsEmpty() == (len(gk) == 0)), "C10/TwoSteps/Size-counts-live-keys")
	vrt.Cover("C10/TwoSteps/end")
}
