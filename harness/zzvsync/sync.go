// Package zzvsync stands in for package sync when a concurrency counterexample is replayed
// natively: the repo's `import "sync"` is redirected to it in overlay copies only (regenerated
// from the current tree on every replay). Every lock operation is a scheduling point of the
// cooperative scheduler in zzvrt, which searches the interleavings with the solver's inputs
// until the reported failure reproduces. Semantics follow the Go documentation, including the
// RWMutex rule that a blocked Lock excludes new readers.
package zzvsync

import (
	vrt "github.com/esimov/gogu/zzvrt"
)

type Locker interface {
	Lock()
	Unlock()
}

type Mutex struct {
	locked bool
}

func (m *Mutex) Lock() {
	vrt.SchedYield()
	vrt.SchedBlock("Mutex.Lock", func() bool { return !m.locked })
	m.locked = true
}

func (m *Mutex) TryLock() bool {
	vrt.SchedYield()
	if m.locked {
		return false
	}
	m.locked = true
	return true
}

func (m *Mutex) Unlock() {
	if !m.locked {
		vrt.SchedFatal("sync: unlock of unlocked mutex")
	}
	m.locked = false
}

type RWMutex struct {
	writer  bool
	readers int
	pending int
}

func (m *RWMutex) Lock() {
	vrt.SchedYield()
	m.pending++
	vrt.SchedBlock("RWMutex.Lock", func() bool { return !m.writer && m.readers == 0 })
	m.pending--
	m.writer = true
}

func (m *RWMutex) Unlock() {
	if !m.writer {
		vrt.SchedFatal("sync: Unlock of unlocked RWMutex")
	}
	m.writer = false
}

func (m *RWMutex) RLock() {
	vrt.SchedYield()
	vrt.SchedBlock("RWMutex.RLock", func() bool { return !m.writer && m.pending == 0 })
	m.readers++
}

func (m *RWMutex) RUnlock() {
	if m.readers == 0 {
		vrt.SchedFatal("sync: RUnlock of unlocked RWMutex")
	}
	m.readers--
}

func (m *RWMutex) RLocker() Locker { return rlocker{m} }

type rlocker struct{ m *RWMutex }

func (r rlocker) Lock()   { r.m.RLock() }
func (r rlocker) Unlock() { r.m.RUnlock() }

type WaitGroup struct {
	n int
}

func (w *WaitGroup) Add(d int) {
	w.n += d
	if w.n < 0 {
		panic("sync: negative WaitGroup counter")
	}
}
func (w *WaitGroup) Done() { w.Add(-1) }
func (w *WaitGroup) Wait() {
	vrt.SchedYield()
	vrt.SchedBlock("WaitGroup.Wait", func() bool { return w.n == 0 })
}

type condWaiter struct{ signalled bool }

type Cond struct {
	L       Locker
	waiters []*condWaiter
}

func NewCond(l Locker) *Cond { return &Cond{L: l} }

func (c *Cond) Wait() {
	w := &condWaiter{}
	c.waiters = append(c.waiters, w)
	c.L.Unlock()
	vrt.SchedBlock("Cond.Wait", func() bool { return w.signalled })
	c.L.Lock()
}

func (c *Cond) Signal() {
	if len(c.waiters) > 0 {
		c.waiters[0].signalled = true
		c.waiters = c.waiters[1:]
	}
}

func (c *Cond) Broadcast() {
	for _, w := range c.waiters {
		w.signalled = true
	}
	c.waiters = nil
}

type Once struct {
	done bool
	m    Mutex
}

func (o *Once) Do(f func()) {
	o.m.Lock()
	defer o.m.Unlock()
	if !o.done {
		defer func() { o.done = true }()
		f()
	}
}
