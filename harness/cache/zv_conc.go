package cache

// C01 / C02 — concurrent programs over the expiring Cache[string,int] through the public API only
// (driver: zzvrt.ConcCheck). Two concrete keys (the selector picks one), symbolic values.
// Variant A: nothing expires (no deadline is ever stored), so the clock does not matter.
// Variant B (clock): entries carry deadlines relative to the engine's symbolic clock.
// DeleteExpired stands for the janitor goroutine's body; List's result is read afterwards by the
// caller holding nothing, as a caller would.

import (
	"time"

	vrt "github.com/esimov/gogu/zzvrt"
)

const (
	zcSet = iota
	zcGet
	zcUpdate
	zcDelete
	zcCount
	zcSetDefault
	zcIsExpired
	zcList
	zcFlush
	zcDeleteExpired
	zcMapToCache
)

var zvCNames = [...]string{"Set", "Get", "Update", "Delete", "Count", "SetDefault", "IsExpired", "List", "Flush", "DeleteExpired", "MapToCache"}
var zvCAll = []int{zcSet, zcGet, zcUpdate, zcDelete, zcCount, zcSetDefault, zcIsExpired, zcList, zcFlush, zcDeleteExpired, zcMapToCache}
var zvCSingle = []int{zcSet, zcGet, zcUpdate, zcDelete, zcCount}

var zvCKeys = [...]string{"a", "b"}

type zvC struct {
	c *Cache[string, int]
	d time.Duration // duration passed to Set/Update
}

func (z zvC) Apply(c vrt.ConcCall) (r vrt.ConcRes) {
	vrt.Note(zvCNames[c.K])
	key := zvCKeys[c.L]
	r.Pan = vrt.Try(func() {
		switch c.K {
		case zcSet:
			r.OK = z.c.Set(key, c.X, z.d) == nil
		case zcGet:
			it, err := z.c.Get(key)
			r.V, r.OK = it.Val(), err == nil
		case zcUpdate:
			r.OK = z.c.Update(key, c.X, z.d) == nil
		case zcDelete:
			r.OK = z.c.Delete(key) == nil
		case zcCount:
			r.V = z.c.Count()
		case zcSetDefault:
			r.OK = z.c.SetDefault(key, c.X) == nil
		case zcIsExpired:
			r.OK = z.c.IsExpired(key)
		case zcList:
			for _, it := range z.c.List() {
				r.V += it.Val()
			}
		case zcFlush:
			z.c.Flush()
		case zcDeleteExpired:
			r.OK = z.c.DeleteExpired() == nil
		case zcMapToCache:
			r.OK = z.c.MapToCache(map[string]int{key: c.X}, z.d) == nil
		}
	})
	return
}

func (z zvC) Observe(_ []int) []int {
	out := []int{z.c.Count()}
	for _, k := range zvCKeys {
		it, err := z.c.Get(k)
		out = append(out, vrt.B2I(err == nil), it.Val())
	}
	return out
}

// zvMkCache: pre-state with 0..2 of the keys stored.
func zvMkCache(exp, d time.Duration, stored [2]bool, vals [2]int) func() vrt.ConcInst {
	return func() vrt.ConcInst {
		c := New[string, int](exp, 0)
		for i, k := range zvCKeys {
			if stored[i] {
				c.Set(k, vals[i], d)
			}
		}
		return zvC{c, d}
	}
}

// after the program: a fresh key can be stored once, read back and removed
func zvCFollow(q vrt.ConcInst) bool {
	c := q.(zvC).c
	v := vrt.Int()
	e1 := c.Set("zz", v, NoExpiration)
	it, e2 := c.Get("zz")
	e3 := c.Set("zz", v, NoExpiration)
	e4 := c.Delete("zz")
	return vrt.And(e1 == nil, e2 == nil, it.Val() == v, e3 != nil, e4 == nil)
}

func zvCRun(pid string, kinds []int, share, lin bool) {
	vrt.ConcShapes = 2
	if pid == "C01" {
		vrt.ConcShapes = 1 // all eleven methods pairwise; triples exceed the path budget
	}
	vrt.ConcSelectors = 2
	vrt.MapOrderMode(2) // maps are ranged in insertion order here: order-dependence is C08/C14's subject
	stored := [2]bool{vrt.Choice(2) == 1, vrt.Choice(2) == 1}
	vals := [2]int{vrt.Int(), vrt.Int()}
	prog := vrt.ConcProgram(vrt.ConcShape(), kinds)
	vrt.ConcCheck(pid, "Cache", zvMkCache(NoExpiration, NoExpiration, stored, vals), prog, nil, share, lin, zvCFollow)
}

func ZvC01_Cache() { zvCRun("C01", zvCAll, true, false) }

// ZvC01_CacheClock: the same programs on a cache whose entries carry deadlines relative to the
// symbolic clock (arbitrary non-decreasing instants), so the expiry branches of Get, IsExpired,
// DeleteExpired and Set-over-expired run under every schedule. No result comparison (C02's
// sequential references would read the clock at other instants), only race/panic/deadlock/usable.
func ZvC01_CacheClock() {
	vrt.ConcSelectors = 1 // one key: every call meets every other on it
	vrt.ConcShapes = 1
	vrt.ConcSkipPrecheck = true
	vrt.MapOrderMode(2)
	exp := time.Duration(vrt.Int())
	d := time.Duration(vrt.Int())
	vrt.Assume(vrt.And(exp > 0, exp < 1<<58, d > 0, d < 1<<58))
	stored := [2]bool{vrt.Choice(2) == 1, false}
	vals := [2]int{vrt.Int(), 0}
	prog := vrt.ConcProgram(vrt.ConcShape(), []int{zcSet, zcGet, zcUpdate, zcIsExpired, zcDeleteExpired})
	vrt.ConcCheck("C01", "CacheClock", zvMkCache(exp, d, stored, vals), prog, nil, true, false, zvCFollow)
}
func ZvC02_Cache() { zvCRun("C02", zvCSingle, false, true) }

// ZvC02_CacheExpired: the same single-element operations on a key whose entry is EXPIRED BUT NOT
// YET PURGED (present in the map, past its deadline): Set must treat it as absent and be granted to
// exactly one of two racing callers. Timing is made irrelevant for the comparison with the
// sequential runs by assuming that every clock read of the program lies after the deadline (the
// clock is non-decreasing, so one assumption on the first read after the setup suffices) and by
// letting the program itself store without expiry.
func ZvC02_CacheExpired() {
	vrt.ConcSelectors = 1
	vrt.MapOrderMode(2)
	d := time.Duration(vrt.Int())
	vrt.Assume(vrt.And(d > 0, d < 1<<58))
	v0 := vrt.Int()
	var afterSet []int64
	mk := func() vrt.ConcInst {
		c := New[string, int](NoExpiration, 0)
		c.Set("a", v0, d)
		afterSet = append(afterSet, vrt.NowNano()) // >= the instant the deadline was computed from
		return zvC{c, NoExpiration}
	}
	first := mk()
	start := vrt.NowNano()
	vrt.Assume(start > afterSet[0]+int64(d)) // from here on the entry is past its deadline
	n := 0
	mk2 := func() vrt.ConcInst {
		if n == 0 {
			n++
			return first
		}
		n++
		q := mk()
		vrt.Assume(vrt.NowNano() > afterSet[len(afterSet)-1]+int64(d))
		return q
	}
	prog := vrt.ConcProgram(0, zvCSingle)
	vrt.ConcCheck("C02", "CacheExpired", mk2, prog, nil, false, true, nil)
}
