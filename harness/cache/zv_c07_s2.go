package cache

// C07 — S2: bounded histories from NewLRU through the public API against a recency-list model
// (keys from a small symbolic alphabet so that hits, misses and evictions all occur).

import (
	vrt "github.com/esimov/gogu/zzvrt"
)

func ZvC07_S2_History() {
	cp := 1 + vrt.Choice(vrt.Pick(2, 3))
	c, err := NewLRU[int, int](cp)
	vrt.Assert(err == nil, "C07/S2/NewLRU")
	var mk, mv []int // model: index 0 = most recent
	find := func(k int) int {
		for i := range mk {
			if mk[i] == k {
				return i
			}
		}
		return -1
	}
	del := func(i int) {
		mk = append(append([]int(nil), mk[:i]...), mk[i+1:]...)
		mv = append(append([]int(nil), mv[:i]...), mv[i+1:]...)
	}
	steps := vrt.Choice(vrt.Pick(4, 5)) + 1
	for s := 0; s < steps; s++ {
		switch vrt.Choice(7) {
		case 0:
			k, v := vrt.Int(), vrt.Int()
			ek, ev, rem := c.Add(k, v)
			if i := find(k); i >= 0 {
				del(i)
				vrt.Assert(!rem, "C07/S2/Add-update-no-eviction")
			} else if len(mk) == cp {
				vrt.Assert(vrt.And(rem, ek == mk[cp-1], ev == mv[cp-1]), "C07/S2/Add-evicts-least-recent")
				del(cp - 1)
			} else {
				vrt.Assert(!rem, "C07/S2/Add-no-eviction-when-not-full")
			}
			mk = append([]int{k}, mk...)
			mv = append([]int{v}, mv...)
		case 1:
			k := vrt.Int()
			v, ok := c.Get(k)
			if i := find(k); i >= 0 {
				vrt.Assert(vrt.And(ok, v == mv[i]), "C07/S2/Get-hit")
				val := mv[i]
				del(i)
				mk = append([]int{k}, mk...)
				mv = append([]int{val}, mv...)
			} else {
				vrt.Assert(!ok, "C07/S2/Get-miss")
			}
		case 2:
			k, v, ok := c.RemoveOldest()
			if len(mk) == 0 {
				vrt.Assert(!ok, "C07/S2/RemoveOldest-empty")
			} else {
				n := len(mk)
				vrt.Assert(vrt.And(ok, k == mk[n-1], v == mv[n-1]), "C07/S2/RemoveOldest")
				del(n - 1)
			}
		case 3:
			k, v, ok := c.RemoveYoungest()
			if len(mk) == 0 {
				vrt.Assert(!ok, "C07/S2/RemoveYoungest-empty")
			} else {
				vrt.Assert(vrt.And(ok, k == mk[0], v == mv[0]), "C07/S2/RemoveYoungest")
				del(0)
			}
		case 5:
			k, v, ok := c.GetOldest()
			if len(mk) == 0 {
				vrt.Assert(!ok, "C07/S2/GetOldest-empty")
			} else {
				n := len(mk)
				vrt.Assert(vrt.And(ok, k == mk[n-1], v == mv[n-1]), "C07/S2/GetOldest")
				// GetOldest refreshes recency
				kk, vv := mk[n-1], mv[n-1]
				del(n - 1)
				mk = append([]int{kk}, mk...)
				mv = append([]int{vv}, mv...)
			}
		case 6:
			c.Flush()
			mk, mv = nil, nil
		case 4:
			k := vrt.Int()
			v, ok := c.Remove(k)
			if i := find(k); i >= 0 {
				vrt.Assert(vrt.And(ok, v == mv[i]), "C07/S2/Remove-hit")
				del(i)
			} else {
				vrt.Assert(!ok, "C07/S2/Remove-miss")
			}
		}
		vrt.Assert(vrt.And(c.Count() == len(mk), c.Count() <= cp), "C07/S2/Count")
		if len(mk) > 0 {
			yk, yv, ok := c.GetYoungest()
			vrt.Assert(vrt.And(ok, yk == mk[0], yv == mv[0]), "C07/S2/GetYoungest")
		}
	}
	// drain by RemoveOldest: exactly the model, least recent first
	for len(mk) > 0 {
		n := len(mk)
		k, v, ok := c.RemoveOldest()
		vrt.Assert(vrt.And(ok, k == mk[n-1], v == mv[n-1]), "C07/S2/drain-in-recency-order")
		del(n - 1)
	}
	vrt.Assert(c.Count() == 0, "C07/S2/drained")
	vrt.Cover("C07/S2/end")
}

// ZvC07_LongRun: one long scenario beyond the capacity bound — capacity 8, 40 operations with
// concrete keys (Add of new and present keys, Get hits and misses, GetOldest, removals) against a
// plain recency-slice model, symbolic values; then a drain in recency order. Nothing forks.
func ZvC07_LongRun() {
	const capN = 8
	c, err := NewLRU[int, int](capN)
	vrt.Assert(err == nil, "C07/long-run/NewLRU")
	var mk, mv []int // index 0 = most recent
	find := func(k int) int {
		for i := range mk {
			if mk[i] == k {
				return i
			}
		}
		return -1
	}
	del := func(i int) {
		mk = append(append([]int(nil), mk[:i]...), mk[i+1:]...)
		mv = append(append([]int(nil), mv[:i]...), mv[i+1:]...)
	}
	front := func(k, v int) {
		mk = append([]int{k}, mk...)
		mv = append([]int{v}, mv...)
	}
	for s := 0; s < 40; s++ {
		k := (s*7 + 3) % 13
		switch s % 5 {
		case 0, 1, 2:
			v := vrt.Int()
			ek, ev, rem := c.Add(k, v)
			if i := find(k); i >= 0 {
				del(i)
				vrt.Assert(!rem, "C07/long-run/update-does-not-evict")
			} else if len(mk) == capN {
				vrt.Assert(vrt.And(rem, ek == mk[capN-1], ev == mv[capN-1]), "C07/long-run/evicts-least-recent")
				del(capN - 1)
			} else {
				vrt.Assert(!rem, "C07/long-run/no-eviction-when-not-full")
			}
			front(k, v)
		case 3:
			v, ok := c.Get(k)
			if i := find(k); i >= 0 {
				vrt.Assert(vrt.And(ok, v == mv[i]), "C07/long-run/Get-hit")
				val := mv[i]
				del(i)
				front(k, val)
			} else {
				vrt.Assert(!ok, "C07/long-run/Get-miss")
			}
		case 4:
			if s%10 == 4 {
				ok2, v2, ok := c.GetOldest()
				n := len(mk)
				vrt.Assert(vrt.And(ok, ok2 == mk[n-1], v2 == mv[n-1]), "C07/long-run/GetOldest")
				kk, vv := mk[n-1], mv[n-1]
				del(n - 1)
				front(kk, vv)
			} else {
				v, ok := c.Remove(k)
				if i := find(k); i >= 0 {
					vrt.Assert(vrt.And(ok, v == mv[i]), "C07/long-run/Remove-hit")
					del(i)
				} else {
					vrt.Assert(!ok, "C07/long-run/Remove-miss")
				}
			}
		}
		vrt.Assert(vrt.And(c.Count() == len(mk), c.Count() <= capN), "C07/long-run/Count")
	}
	for len(mk) > 0 {
		n := len(mk)
		k, v, ok := c.RemoveOldest()
		vrt.Assert(vrt.And(ok, k == mk[n-1], v == mv[n-1]), "C07/long-run/drain-in-recency-order")
		del(n - 1)
	}
	vrt.Assert(c.Count() == 0, "C07/long-run/drained")
}
