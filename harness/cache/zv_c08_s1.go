package cache

// C08 — S1: one real operation of the expiring cache from an ARBITRARY stored state (up to E
// entries over three keys, each with a symbolic value and a symbolic expiry in {-1, 0, any positive
// deadline}, symbolic default expiry) under a SYMBOLIC CLOCK: time.Now returns arbitrary
// non-decreasing instants, and every operation is bracketed by two clock reads t0 <= ... <= t1.
//   dead(e) := e > 0 && t0 > e      (expired at every instant the operation can have observed)
//   live(e) := e <= 0 || t1 < e     (live at every such instant)
// The instant t = e itself, and deadlines falling inside the bracket, are left unspecified, as in
// the statement. Touches unexported fields.

import (
	"time"

	vrt "github.com/esimov/gogu/zzvrt"
)

var zvKeys = [3]string{"a", "b", "c"}

type zvCS struct {
	c   *Cache[string, int]
	has [3]bool
	val [3]int
	exp [3]int64
	n   int
}

const zvBig = int64(1) << 58

func zvValidExp(e int64) bool {
	return vrt.Or(e == -1, e == 0, vrt.And(e >= zvBig, e <= 8*zvBig))
}

func zvDur() time.Duration {
	d := vrt.Int64()
	vrt.Assume(vrt.And(d > -zvBig, d < zvBig))
	return time.Duration(d)
}

func zvCache() *zvCS {
	st := &zvCS{}
	items := make(map[string]*Item[int])
	for i := range zvKeys {
		if st.n < vrt.Pick(2, 3) && vrt.Choice(2) == 1 {
			st.has[i] = true
			st.val[i] = vrt.Int()
			st.exp[i] = vrt.Int64()
			vrt.Assume(zvValidExp(st.exp[i]))
			items[zvKeys[i]] = &Item[int]{object: st.val[i], expiration: st.exp[i]}
			st.n++
		}
	}
	st.c = &Cache[string, int]{newCache(zvDur(), 0, items)}
	return st
}

func zvDead(e, t0 int64) bool { return vrt.And(e > 0, t0 > e) }
func zvLive(e, t1 int64) bool { return vrt.Or(e <= 0, t1 < e) }

// zvUnchanged: the stored map still holds exactly the pre-state entries, except index skip (-1: none).
func (st *zvCS) unchanged(skip int, id string) {
	vrt.MapOrderMode(2)
	cnt := 0
	for i := range zvKeys {
		if i == skip {
			continue
		}
		it, ok := st.c.items[zvKeys[i]]
		vrt.Assert(ok == st.has[i], id+"/other-entries-presence-unchanged")
		if ok && st.has[i] {
			vrt.Assert(vrt.And(it.object == st.val[i], it.expiration == st.exp[i]), id+"/other-entries-unchanged")
		}
		if st.has[i] {
			cnt++
		}
	}
	if skip == -1 {
		vrt.Assert(len(st.c.items) == cnt, id+"/no-entries-added")
	}
	vrt.MapOrderMode(0)
}

// pick a key: index 0..2 = one of the three keys, 3 = a key that is never stored
func zvPickKey() (string, int) {
	i := vrt.Choice(4)
	if i == 3 {
		return "zz", -1
	}
	return zvKeys[i], i
}

func ZvC08_S1_Get() {
	st := zvCache()
	k, i := zvPickKey()
	t0 := vrt.NowNano()
	var it *Item[int]
	var err error
	vrt.Assert(!vrt.Try(func() { it, err = st.c.Get(k) }), "C08/Get/no-panic")
	t1 := vrt.NowNano()
	if i < 0 || !st.has[i] {
		vrt.Assert(vrt.And(err != nil, it == nil), "C08/Get/missing-is-an-error")
	} else {
		e := st.exp[i]
		vrt.Assert(vrt.Implies(zvDead(e, t0), err != nil), "C08/Get/expired-is-an-error-at-every-instant-after-the-deadline")
		vrt.Assert(vrt.Implies(zvLive(e, t1), err == nil), "C08/Get/live-at-every-instant-before-the-deadline")
		if err == nil {
			vrt.Assert(vrt.And(it != nil, it.Val() == st.val[i]), "C08/Get/returns-latest-stored-value")
		}
		if e <= 0 {
			vrt.Cover("C08/Get/non-expiring")
		}
	}
	st.unchanged(-1, "C08/Get")
	vrt.Assert(vrt.LocksHeld() == 0, "C08/Get/lock-released")
}

// zvStored checks the entry written for key index i / duration d between instants t0 and t1.
func (st *zvCS) stored(k string, v int, d time.Duration, t0, t1 int64, id string) {
	it, ok := st.c.items[k]
	vrt.Assert(ok, id+"/entry-stored")
	if !ok {
		return
	}
	dd := int64(d)
	if d == 0 {
		dd = int64(st.c.expTime)
	}
	e := it.expiration
	vrt.Assert(it.object == v, id+"/value-stored")
	vrt.Assert(vrt.Implies(dd > 0, vrt.And(e >= t0+dd, e <= t1+dd)), id+"/deadline-is-store-instant-plus-duration")
	vrt.Assert(vrt.Implies(dd < 0, e == -1), id+"/negative-duration-never-expires")
	vrt.Assert(vrt.Implies(dd == 0, e == 0), id+"/zero-default-never-expires")
}

func ZvC08_S1_Set() {
	st := zvCache()
	k, i := zvPickKey()
	v, d := vrt.Int(), zvDur()
	t0 := vrt.NowNano()
	var err error
	vrt.Assert(!vrt.Try(func() { err = st.c.Set(k, v, d) }), "C08/Set/no-panic")
	t1 := vrt.NowNano()
	if i >= 0 && st.has[i] {
		e := st.exp[i]
		vrt.Assert(vrt.Implies(zvLive(e, t1), err != nil), "C08/Set/live-entry-is-an-error")
		vrt.Assert(vrt.Implies(zvDead(e, t0), err == nil), "C08/Set/stores-over-expired-entry")
	} else {
		vrt.Assert(err == nil, "C08/Set/stores-when-absent")
	}
	if err != nil {
		st.unchanged(-1, "C08/Set/rejected-changes-nothing")
		vrt.Cover("C08/Set/rejected")
	} else {
		st.stored(k, v, d, t0, t1, "C08/Set")
		if i < 0 {
			i = -2 // a never-stored key was added: only the other entries are compared
		}
		st.unchanged(i, "C08/Set")
		vrt.Cover("C08/Set/stored")
	}
	vrt.Assert(vrt.LocksHeld() == 0, "C08/Set/lock-released")
}

func ZvC08_S1_SetDefault() {
	st := zvCache()
	k, i := zvPickKey()
	if i >= 0 && st.has[i] {
		return
	}
	v := vrt.Int()
	t0 := vrt.NowNano()
	err := st.c.SetDefault(k, v)
	t1 := vrt.NowNano()
	vrt.Assert(err == nil, "C08/SetDefault/stores-when-absent")
	st.stored(k, v, DefaultExpiration, t0, t1, "C08/SetDefault")
}

func ZvC08_S1_Update() {
	st := zvCache()
	k, i := zvPickKey()
	v, d := vrt.Int(), zvDur()
	t0 := vrt.NowNano()
	var err error
	vrt.Assert(!vrt.Try(func() { err = st.c.Update(k, v, d) }), "C08/Update/no-panic")
	t1 := vrt.NowNano()
	vrt.Assert(err == nil, "C08/Update/always-stores")
	st.stored(k, v, d, t0, t1, "C08/Update")
	if i < 0 {
		i = -2
	}
	st.unchanged(i, "C08/Update")
}

func ZvC08_S1_Delete() {
	st := zvCache()
	k, i := zvPickKey()
	var err error
	vrt.Assert(!vrt.Try(func() { err = st.c.Delete(k) }), "C08/Delete/no-panic")
	present := i >= 0 && st.has[i]
	vrt.Assert((err == nil) == present, "C08/Delete/error-iff-absent")
	_, still := st.c.items[k]
	vrt.Assert(!still, "C08/Delete/removes-the-named-entry")
	st.unchanged(i, "C08/Delete")
	vrt.Assert(st.c.Count() == st.n-vrt.B2I(present), "C08/Delete/Count")
}

func ZvC08_S1_FlushCountList() {
	st := zvCache()
	vrt.Assert(st.c.Count() == st.n, "C08/Count/agrees-with-stored-map")
	l := st.c.List()
	vrt.MapOrderMode(2)
	vrt.Assert(len(l) == st.n, "C08/List/agrees-with-stored-map")
	for i := range zvKeys {
		it, ok := l[zvKeys[i]]
		vrt.Assert(ok == st.has[i], "C08/List/entries")
		if ok && st.has[i] {
			vrt.Assert(it.Val() == st.val[i], "C08/List/values")
		}
	}
	st.c.Flush()
	vrt.Assert(vrt.And(st.c.Count() == 0, len(st.c.items) == 0), "C08/Flush/removes-all")
	_, err := st.c.Get("a")
	vrt.Assert(err != nil, "C08/Flush/nothing-found-afterwards")
}

func ZvC08_S1_DeleteExpired() {
	st := zvCache()
	t0 := vrt.NowNano()
	var err error
	vrt.Assert(!vrt.Try(func() { err = st.c.DeleteExpired() }), "C08/DeleteExpired/no-panic")
	t1 := vrt.NowNano()
	vrt.Assert(err == nil, "C08/DeleteExpired/no-error")
	vrt.MapOrderMode(2)
	for i := range zvKeys {
		it, ok := st.c.items[zvKeys[i]]
		if !st.has[i] {
			vrt.Assert(!ok, "C08/DeleteExpired/adds-nothing")
			continue
		}
		e := st.exp[i]
		vrt.Assert(vrt.Implies(zvDead(e, t0), !ok), "C08/DeleteExpired/removes-every-expired-entry")
		vrt.Assert(vrt.Implies(zvLive(e, t1), ok), "C08/DeleteExpired/keeps-live-and-non-expiring-entries")
		if ok {
			vrt.Assert(vrt.And(it.object == st.val[i], it.expiration == e), "C08/DeleteExpired/kept-entries-unchanged")
		}
	}
	vrt.Assert(vrt.LocksHeld() == 0, "C08/DeleteExpired/lock-released")
}

func ZvC08_S1_IsExpired() {
	st := zvCache()
	k, i := zvPickKey()
	t0 := vrt.NowNano()
	var r bool
	vrt.Assert(!vrt.Try(func() { r = st.c.IsExpired(k) }), "C08/IsExpired/no-panic")
	t1 := vrt.NowNano()
	if i < 0 || !st.has[i] {
		vrt.Assert(!r, "C08/IsExpired/false-for-absent")
	} else {
		e := st.exp[i]
		vrt.Assert(vrt.Implies(zvDead(e, t0), r), "C08/IsExpired/true-for-stored-entry-past-its-deadline")
		vrt.Assert(vrt.Implies(zvLive(e, t1), !r), "C08/IsExpired/false-for-live")
	}
	st.unchanged(-1, "C08/IsExpired")
}

func ZvC08_S1_MapToCache() {
	st := zvCache()
	// transfer one or two keys; a key with a live entry must be reported
	m := map[string]int{}
	var idx []int
	for i := range zvKeys {
		if len(idx) < 2 && vrt.Choice(2) == 1 {
			m[zvKeys[i]] = vrt.Int()
			idx = append(idx, i)
		}
	}
	d := zvDur()
	t0 := vrt.NowNano()
	var err error
	vrt.Assert(!vrt.Try(func() { err = st.c.MapToCache(m, d) }), "C08/MapToCache/no-panic")
	t1 := vrt.NowNano()
	anyLive, allFree := false, true
	for _, i := range idx {
		if st.has[i] {
			anyLive = vrt.Or(anyLive, zvLive(st.exp[i], t1))
			allFree = vrt.And(allFree, zvDead(st.exp[i], t0))
		}
	}
	vrt.Assert(vrt.Implies(anyLive, err != nil), "C08/MapToCache/duplicate-live-key-is-reported-as-error")
	vrt.Assert(vrt.Implies(allFree, err == nil), "C08/MapToCache/no-error-when-every-key-is-free")
	vrt.MapOrderMode(2)
	for _, i := range idx {
		it, ok := st.c.items[zvKeys[i]]
		if !ok {
			// (it is nil here: do not touch its fields)
			vrt.Assert(vrt.And(st.has[i], !zvLive(st.exp[i], t1)), "C08/MapToCache/free-keys-stored (MapToCache is one Set per key)")
			continue
		}
		if !st.has[i] {
			vrt.Assert(it.object == m[zvKeys[i]], "C08/MapToCache/free-keys-stored (MapToCache is one Set per key)")
		} else {
			vrt.Assert(vrt.Implies(zvLive(st.exp[i], t1), vrt.And(it.object == st.val[i], it.expiration == st.exp[i])), "C08/MapToCache/live-entries-untouched")
		}
	}
}

// Cache[string,string]: the empty string is a rejected value — reported as an error, nothing stored.
func ZvC08_S1_RejectedValue() {
	items := make(map[string]*Item[string])
	c := &Cache[string, string]{newCache(zvDur(), 0, items)}
	v := vrt.Str(vrt.Choice(2))
	d := zvDur()
	var err error
	which := vrt.Choice(2)
	vrt.Assert(!vrt.Try(func() {
		if which == 0 {
			err = c.Set("a", v, d)
		} else {
			err = c.Update("a", v, d)
		}
	}), "C08/Set/string/no-panic")
	_, ok := c.items["a"]
	if len(v) == 0 {
		vrt.Assert(err != nil, "C08/Set/rejected-value-is-reported-as-error")
		vrt.Assert(!ok, "C08/Set/rejected-value-stores-nothing")
	} else {
		vrt.Assert(vrt.And(err == nil, ok), "C08/Set/string/stores")
	}
}

func ZvC08_S1_New() {
	exp := zvDur()
	c := New[string, int](exp, 0) // cleanup disabled: no goroutine
	vrt.Assert(vrt.And(c.Count() == 0, c.expTime == exp), "C08/New/empty")
	_, err := c.Get("a")
	vrt.Assert(err != nil, "C08/New/nothing-found")
}

// Cache[string,string] from an ARBITRARY stored state (two keys, each absent or stored with a
// symbolic expiry — live, expired-but-unpurged, or non-expiring): whenever Set/SetDefault/Update
// reports an error (rejected empty value, or duplicate live key) the stored map is exactly what it
// was — "otherwise it errors and changes nothing"; only Delete/Flush/DeleteExpired remove entries.
func ZvC08_S1_ErrorChangesNothing() {
	keys := [2]string{"a", "b"}
	vals := [2]string{"x", "y"}
	var has [2]bool
	var exp [2]int64
	items := make(map[string]*Item[string])
	n := 0
	for i := range keys {
		if vrt.Choice(2) == 1 {
			has[i] = true
			exp[i] = vrt.Int64()
			vrt.Assume(zvValidExp(exp[i]))
			items[keys[i]] = &Item[string]{object: vals[i], expiration: exp[i]}
			n++
		}
	}
	c := &Cache[string, string]{newCache(zvDur(), 0, items)}
	v := vrt.Str(vrt.Choice(2))
	d := zvDur()
	var err error
	which := vrt.Choice(3)
	vrt.Assert(!vrt.Try(func() {
		switch which {
		case 0:
			err = c.Set("a", v, d)
		case 1:
			err = c.Update("a", v, d)
		default:
			err = c.SetDefault("a", v)
		}
	}), "C08/Set/string/no-panic")
	if len(v) == 0 {
		vrt.Assert(err != nil, "C08/Set/rejected-value-is-reported-as-error")
	}
	if err != nil {
		vrt.Assert(len(c.items) == n, "C08/Set/error-changes-nothing (entry count)")
		for i := range keys {
			it, ok := c.items[keys[i]]
			vrt.Assert(ok == has[i], "C08/Set/error-changes-nothing (presence)")
			if ok && has[i] {
				vrt.Assert(vrt.And(it.object == vals[i], it.expiration == exp[i]), "C08/Set/error-changes-nothing (entry)")
			}
		}
	}
	vrt.Assert(vrt.LocksHeld() == 0, "C08/Set/string/lock-released")
}
