package cache

// C07 — S1: one real LRU operation from an ARBITRARY valid cache state (capacity 1..C, any fill
// level, pairwise distinct symbolic keys, symbolic values, ring list + map built directly), checked
// against the textbook LRU specification on the recency sequence (index 0 = most recent).
// Touches unexported fields.

import (
	vrt "github.com/esimov/gogu/zzvrt"
)

type zvLRUState struct {
	c          *LRUCache[int, int]
	keys, vals []int
	cap, n     int
}

func zvLRU() zvLRUState {
	cp := 1 + vrt.Choice(vrt.Pick(3, 4))
	n := vrt.Choice(cp + 1)
	l := &lruList[int, int]{}
	l.root.next, l.root.prev = &l.root, &l.root
	items := make(map[int]*node[int, int])
	keys, vals := make([]int, n), make([]int, n)
	prev := &l.root
	for i := 0; i < n; i++ {
		keys[i], vals[i] = vrt.Int(), vrt.Int()
		for j := 0; j < i; j++ {
			vrt.Assume(keys[j] != keys[i])
		}
		nd := &node[int, int]{list: l, key: keys[i], value: vals[i]}
		nd.prev = prev
		prev.next = nd
		prev = nd
		items[keys[i]] = nd
	}
	prev.next = &l.root
	l.root.prev = prev
	l.len = n
	return zvLRUState{c: &LRUCache[int, int]{items: items, evictList: l, size: cp}, keys: keys, vals: vals, cap: cp, n: n}
}

// zvLRUAbs walks the ring and checks the representation invariant; returns the recency sequence.
func zvLRUAbs(c *LRUCache[int, int], id string) (keys, vals []int) {
	l := c.evictList
	ok := true
	steps := 0
	for nd := l.root.next; nd != &l.root; nd = nd.next {
		steps++
		if steps > 16 || nd == nil {
			vrt.Assert(false, id+"/ring-closed")
			return
		}
		ok = ok && nd.next != nil && nd.next.prev == nd && nd.prev != nil && nd.prev.next == nd && nd.list == l
		keys = append(keys, nd.key)
		vals = append(vals, nd.value)
	}
	ok = ok && l.root.next.prev == &l.root && l.root.prev.next == &l.root
	vrt.Assert(ok, id+"/ring-links-mirror")
	vrt.Assert(vrt.And(l.len == len(keys), c.Count() == len(keys)), id+"/len-is-node-count")
	vrt.Assert(len(keys) <= c.size, id+"/never-exceeds-capacity")
	vrt.Assert(len(c.items) == len(keys), id+"/map-size")
	i := 0
	for nd := l.root.next; nd != &l.root; nd = nd.next {
		got, present := c.items[keys[i]]
		vrt.Assert(vrt.And(present, got == nd), id+"/map-points-to-node")
		i++
	}
	return
}

func zvSeqPairs(k1, v1, k2, v2 []int) bool {
	return vrt.And(vrt.SeqEqInt(k1, k2), vrt.SeqEqInt(v1, v2))
}

// zvIndex returns the index of k in keys or -1 (forks; keys are pairwise distinct).
func zvIndex(keys []int, k int) int {
	for i := range keys {
		if keys[i] == k {
			return i
		}
	}
	return -1
}

func zvWithout(s []int, i int) []int {
	out := append([]int(nil), s[:i]...)
	return append(out, s[i+1:]...)
}

func ZvC07_S1_NewLRU() {
	size := vrt.Int()
	c, err := NewLRU[int, int](size)
	vrt.Assert((err != nil) == (size <= 0), "C07/NewLRU/rejects-non-positive-capacity")
	if err == nil {
		k, v := zvLRUAbs(c, "C07/NewLRU")
		vrt.Assert(vrt.And(len(k) == 0, len(v) == 0, c.size == size), "C07/NewLRU/empty")
	} else {
		vrt.Assert(c == nil, "C07/NewLRU/nil-on-error")
	}
}

func ZvC07_S1_Add() {
	st := zvLRU()
	k, v := vrt.Int(), vrt.Int()
	var ok0, ov0 int
	var rem bool
	vrt.Assert(!vrt.Try(func() { ok0, ov0, rem = st.c.Add(k, v) }), "C07/Add/no-panic")
	pk, pv := zvLRUAbs(st.c, "C07/Add")
	i := zvIndex(st.keys, k)
	switch {
	case i >= 0:
		wk := append([]int{k}, zvWithout(st.keys, i)...)
		wv := append([]int{v}, zvWithout(st.vals, i)...)
		vrt.Assert(zvSeqPairs(pk, pv, wk, wv), "C07/Add/existing-key-updated-and-promoted")
		vrt.Assert(vrt.And(!rem, ok0 == 0, ov0 == 0), "C07/Add/no-eviction-on-update")
		vrt.Cover("C07/Add/hit")
	case st.n < st.cap:
		vrt.Assert(zvSeqPairs(pk, pv, append([]int{k}, st.keys...), append([]int{v}, st.vals...)), "C07/Add/new-key-at-front")
		vrt.Assert(vrt.And(!rem, ok0 == 0, ov0 == 0), "C07/Add/no-eviction-when-not-full")
	default:
		n := st.n
		vrt.Assert(zvSeqPairs(pk, pv, append([]int{k}, st.keys[:n-1]...), append([]int{v}, st.vals[:n-1]...)), "C07/Add/evicts-exactly-least-recent")
		vrt.Assert(vrt.And(rem, ok0 == st.keys[n-1], ov0 == st.vals[n-1]), "C07/Add/returns-evicted-entry")
		vrt.Cover("C07/Add/evicted")
	}
}

func ZvC07_S1_Get() {
	st := zvLRU()
	k := vrt.Int()
	var v int
	var ok bool
	vrt.Assert(!vrt.Try(func() { v, ok = st.c.Get(k) }), "C07/Get/no-panic")
	pk, pv := zvLRUAbs(st.c, "C07/Get")
	i := zvIndex(st.keys, k)
	if i >= 0 {
		vrt.Assert(vrt.And(ok, v == st.vals[i]), "C07/Get/hit-returns-latest-value")
		wk := append([]int{k}, zvWithout(st.keys, i)...)
		wv := append([]int{st.vals[i]}, zvWithout(st.vals, i)...)
		vrt.Assert(zvSeqPairs(pk, pv, wk, wv), "C07/Get/hit-promotes")
	} else {
		vrt.Assert(vrt.And(!ok, v == 0), "C07/Get/miss")
		vrt.Assert(zvSeqPairs(pk, pv, st.keys, st.vals), "C07/Get/miss-changes-nothing")
	}
}

func ZvC07_S1_Oldest() {
	st := zvLRU()
	n := st.n
	var k, v int
	var ok bool
	vrt.Assert(!vrt.Try(func() { k, v, ok = st.c.GetOldest() }), "C07/GetOldest/no-panic")
	pk, pv := zvLRUAbs(st.c, "C07/GetOldest")
	if n == 0 {
		vrt.Assert(vrt.And(!ok, k == 0, v == 0, len(pk) == 0), "C07/GetOldest/empty")
		return
	}
	vrt.Assert(vrt.And(ok, k == st.keys[n-1], v == st.vals[n-1]), "C07/GetOldest/designates-least-recent")
	vrt.Assert(zvSeqPairs(pk, pv, append([]int{st.keys[n-1]}, st.keys[:n-1]...), append([]int{st.vals[n-1]}, st.vals[:n-1]...)), "C07/GetOldest/refreshes-recency")
}

func ZvC07_S1_Youngest() {
	st := zvLRU()
	var k, v int
	var ok bool
	vrt.Assert(!vrt.Try(func() { k, v, ok = st.c.GetYoungest() }), "C07/GetYoungest/no-panic")
	pk, pv := zvLRUAbs(st.c, "C07/GetYoungest")
	if st.n == 0 {
		vrt.Assert(vrt.And(!ok, k == 0, v == 0), "C07/GetYoungest/empty")
	} else {
		vrt.Assert(vrt.And(ok, k == st.keys[0], v == st.vals[0]), "C07/GetYoungest/designates-most-recent")
	}
	vrt.Assert(zvSeqPairs(pk, pv, st.keys, st.vals), "C07/GetYoungest/does-not-refresh-recency")
}

func ZvC07_S1_Remove() {
	st := zvLRU()
	k := vrt.Int()
	var v int
	var ok bool
	vrt.Assert(!vrt.Try(func() { v, ok = st.c.Remove(k) }), "C07/Remove/no-panic")
	pk, pv := zvLRUAbs(st.c, "C07/Remove")
	i := zvIndex(st.keys, k)
	if i >= 0 {
		vrt.Assert(vrt.And(ok, v == st.vals[i]), "C07/Remove/returns-removed-value")
		vrt.Assert(zvSeqPairs(pk, pv, zvWithout(st.keys, i), zvWithout(st.vals, i)), "C07/Remove/removes-exactly-that-entry")
	} else {
		vrt.Assert(vrt.And(!ok, v == 0), "C07/Remove/miss")
		vrt.Assert(zvSeqPairs(pk, pv, st.keys, st.vals), "C07/Remove/miss-changes-nothing")
	}
}

func ZvC07_S1_RemoveOldest() {
	st := zvLRU()
	n := st.n
	var k, v int
	var ok bool
	vrt.Assert(!vrt.Try(func() { k, v, ok = st.c.RemoveOldest() }), "C07/RemoveOldest/no-panic")
	pk, pv := zvLRUAbs(st.c, "C07/RemoveOldest")
	if n == 0 {
		vrt.Assert(vrt.And(!ok, k == 0, v == 0, len(pk) == 0), "C07/RemoveOldest/empty")
		return
	}
	vrt.Assert(vrt.And(ok, k == st.keys[n-1], v == st.vals[n-1]), "C07/RemoveOldest/designates-least-recent")
	vrt.Assert(zvSeqPairs(pk, pv, st.keys[:n-1], st.vals[:n-1]), "C07/RemoveOldest/removes-exactly-what-it-returns")
}

func ZvC07_S1_RemoveYoungest() {
	st := zvLRU()
	n := st.n
	var k, v int
	var ok bool
	vrt.Assert(!vrt.Try(func() { k, v, ok = st.c.RemoveYoungest() }), "C07/RemoveYoungest/no-panic")
	pk, pv := zvLRUAbs(st.c, "C07/RemoveYoungest")
	if n == 0 {
		vrt.Assert(vrt.And(!ok, k == 0, v == 0, len(pk) == 0), "C07/RemoveYoungest/empty")
		return
	}
	vrt.Assert(vrt.And(ok, k == st.keys[0], v == st.vals[0]), "C07/RemoveYoungest/designates-most-recent")
	vrt.Assert(zvSeqPairs(pk, pv, st.keys[1:], st.vals[1:]), "C07/RemoveYoungest/removes-exactly-what-it-returns")
}

func ZvC07_S1_Flush() {
	st := zvLRU()
	st.c.Flush()
	pk, _ := zvLRUAbs(st.c, "C07/Flush")
	vrt.Assert(vrt.And(len(pk) == 0, st.c.Count() == 0), "C07/Flush/empties")
	k := vrt.Int()
	_, ok := st.c.Get(k)
	vrt.Assert(!ok, "C07/Flush/nothing-found-afterwards")
	st.c.Add(k, 1)
	v, ok2 := st.c.Get(k)
	vrt.Assert(vrt.And(ok2, v == 1, st.c.Count() == 1), "C07/Flush/usable-after")
}
