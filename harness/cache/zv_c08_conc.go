package cache

// C08 — cleanup against a concurrent writer, under the exploring scheduler and the symbolic clock:
// "live ones never disappear", "entries without expiry are never removed by cleanup", "Update
// always stores". DeleteExpired is the body of the janitor goroutine; it runs concurrently with one
// Update / Set of the key it may be looking at. Whatever the interleaving and whatever the instants,
// an entry that the writer stored without expiry must be there afterwards with the writer's value.

import (
	"time"

	vrt "github.com/esimov/gogu/zzvrt"
)

func ZvC08_Conc_CleanupVsRefresh() {
	d := time.Duration(vrt.Int())
	vrt.Assume(vrt.And(d > 0, d < 1<<58))
	c := New[string, int](NoExpiration, 0)
	v1, v2 := vrt.Int(), vrt.Int()
	if vrt.Choice(2) == 1 {
		c.Set("k", v1, d) // an entry with a deadline; the clock decides whether it is past it
	}
	other := vrt.Choice(2) == 1
	if other {
		c.Set("live", v1, NoExpiration)
	}
	vrt.ShareNoRaceCheck(c)
	useSet := vrt.Choice(2) == 1
	var werr error
	vrt.Par(func() {
		c.DeleteExpired()
	}, func() {
		if useSet {
			werr = c.Set("k", v2, NoExpiration) // granted iff no LIVE entry
		} else {
			werr = c.Update("k", v2, NoExpiration)
		}
	})
	it, err := c.Get("k")
	if werr == nil {
		vrt.Assert(vrt.And(err == nil, it.Val() == v2), "C08/cleanup/never-removes-an-entry-stored-without-expiry")
		vrt.Cover("C08/cleanup/refreshed")
	} else {
		vrt.Assert(useSet, "C08/Update/always-stores")
	}
	if other {
		it2, err2 := c.Get("live")
		vrt.Assert(vrt.And(err2 == nil, it2.Val() == v1), "C08/cleanup/never-removes-a-non-expiring-entry")
	}
	vrt.Assert(vrt.LocksHeld() == 0, "C08/cleanup/lock-released")
}
