package cache

// C08 — cleanup against a concurrent writer, under the exploring scheduler and the symbolic clock:
// "live ones never disappear", "entries without expiry are never removed by cleanup", "Update
// always stores". DeleteExpired is the body of the janitor goroutine; it runs concurrently with one
// Update / Set of the key it may be looking at. Whatever the interleaving and whatever the instants,
// an entry that the writer stored without expiry must be there afterwards with the writer's value.

import (
	"time"

	vrt "github.com/esimov/gogu/zzvrt"
)

func ZvC08_Conc_CleanupVsRefresh() {
	d := time.Duration(vrt.Int())
	vrt.Assume(vrt.And(d > 0, d < 1<<58))
	c := New[string, int](NoExpiration, 0)
	v1, v2 := vrt.Int(), vrt.Int()
	if vrt.Choice(2) == 1 {
		c.Set("k", v1, d) // an entry with a deadline; the clock decides whether it is past it
	}
	other := vrt.Choice(2) == 1
	if other {
		c.Set("live", v1, NoExpiration)
	}
	vrt.ShareNoRaceCheck(c)
	useSet := vrt.Choice(2) == 1
	var werr error
	vrt.Par(func() {
		c.DeleteExpired()
	}, func() {
		if useSet {
			werr = c.Set("k", v2, NoExpiration) // granted iff no LIVE entry
		} else {
			werr = c.Update("k", v2, NoExpiration)
		}
	})
	it, err := c.Get("k")
	if werr == nil {
		vrt.Assert(vrt.And(err == nil, it.Val() == v2), "C08/cleanup/never-removes-an-entry-stored-without-expiry")
		vrt.Cover("C08/cleanup/refreshed")
	} else {
		vrt.Assert(useSet, "C08/Update/always-stores")
	}
	if other {
		it2, err2 := c.Get("live")
		vrt.Assert(vrt.And(err2 == nil, it2.Val() == v1), "C08/cleanup/never-removes-a-non-expiring-entry")
	}
	vrt.Assert(vrt.LocksHeld() == 0, "C08/cleanup/lock-released")
}

// ZvC08_Janitor: New with a positive cleanup interval starts the background cleanup, whatever the
// default expiry is. The real cleanup goroutine (ticker + select loop) runs as an engine thread; the
// environment fires the ticker at arbitrary instants not before its deadline. Once the clock is past
// an entry's deadline and every pending tick has been delivered and handled, the entry is gone from
// the stored state (Count/List — Get would hide it anyway); entries without expiry stay.
func ZvC08_Janitor() {
	exp := time.Duration(vrt.Int())
	interval := time.Duration(vrt.Int())
	d := time.Duration(vrt.Int())
	vrt.Assume(vrt.And(exp > -(1<<58), exp < 1<<58, interval > 0, interval < 1<<58, d > 0, d < 1<<58))
	v := vrt.Int()
	c := New[string, int](exp, interval)
	vrt.Settle() // the cleanup goroutine has started and armed its ticker (scheduling latency of `go` is not modelled)
	c.Set("k", v, d)
	tSet := vrt.NowNano() // the deadline is at most tSet + d
	c.Set("live", v, NoExpiration)
	early := vrt.Choice(2) == 1
	if early {
		vrt.Advance() // a tick may or may not arrive while the entry may still be live
		vrt.Settle()
		_, ok := c.List()["live"]
		vrt.Assert(ok, "C08/janitor/never-removes-a-non-expiring-entry")
	}
	a := vrt.NowNano()
	vrt.Quiesce() // every pending tick is delivered at an instant >= a
	vrt.Settle()  // and handled by the cleanup goroutine
	if a > tSet+int64(d) {
		_, still := c.List()["k"]
		vrt.Assert(!still, "C08/janitor/expired-entry-disappears-once-a-tick-after-its-deadline-is-handled")
		vrt.Assert(c.Count() == 1, "C08/janitor/Count-agrees")
		vrt.Cover("C08/janitor/expired-removed")
	}
	_, ok := c.List()["live"]
	vrt.Assert(ok, "C08/janitor/never-removes-a-non-expiring-entry")
	vrt.Assert(vrt.LocksHeld() == 0, "C08/janitor/lock-released")
}
