package heap

// C03 — S2: bounded histories from NewHeap through the public API only, against a multiset model
// tracked with a symbolic probe. Cross-checks that the S1 invariant is not too strong and survives
// representation changes (no unexported field is touched here).

import (
	vrt "github.com/esimov/gogu/zzvrt"
)

func ZvC03_S2_History() {
	kind := vrt.Choice(2)
	comp := zvS2Comp(kind)
	h := NewHeap(comp)
	L := vrt.Pick(4, 5)
	steps := vrt.Choice(L) + 1
	q := vrt.Int() // probe value: cnt tracks how many q the model holds
	cnt := 0
	size := 0
	for s := 0; s < steps; s++ {
		switch vrt.Choice(6) {
		case 4:
			// Convert to the other comparator: from now on it decides what precedes what
			kind = 1 - kind
			comp = zvS2Comp(kind)
			h.Convert(comp)
		case 5:
			h.Clear()
			cnt, size = 0, 0
		case 0:
			v := vrt.Int()
			h.Push(v)
			cnt += vrt.B2I(v == q)
			size++
		case 1:
			r := h.Pop()
			if size == 0 {
				vrt.Assert(r == 0, "C03/S2/Pop-empty-zero")
			} else {
				// a held q never precedes what Pop returned
				vrt.Assert(vrt.Not(vrt.And(cnt > 0, comp(q, r))), "C03/S2/Pop-extremal")
				cnt -= vrt.B2I(r == q)
				size--
			}
		case 2:
			r := h.Peek()
			if size == 0 {
				vrt.Assert(r == 0, "C03/S2/Peek-empty-zero")
			} else {
				vrt.Assert(vrt.Not(vrt.And(cnt > 0, comp(q, r))), "C03/S2/Peek-extremal")
			}
		case 3:
			v := vrt.Int()
			var ok bool
			var err error
			panicked := vrt.Try(func() { ok, err = h.Delete(v) })
			if size >= 2 {
				// region of known findings C03-KF1/KF2 (Delete on heaps with >= 2 elements may panic or
				// break the order when the value is present): decided by the S1 harness; the history
				// is not continued through it so that downstream symptoms are not re-reported.
				vrt.Cover("C03/S2/delete-known-region")
				return
			}
			vrt.Assert(!panicked, "C03/S2/Delete-no-panic")
			if ok {
				vrt.Assert(err == nil, "C03/S2/Delete-ok-no-error")
				cnt -= vrt.B2I(v == q)
				size--
			} else {
				vrt.Assert(err != nil, "C03/S2/Delete-absent-error")
			}
		}
		vrt.Assert(h.Size() == size, "C03/S2/Size")
		vrt.Assert(cnt >= 0, "C03/S2/never-returns-unheld")
	}
	// drain: every remaining element comes out, in comparator order, and the probe count matches
	prev := 0
	for i := 0; i < size; i++ {
		r := h.Pop()
		if i > 0 {
			vrt.Assert(!comp(r, prev), "C03/S2/drain-ordered")
		}
		cnt -= vrt.B2I(r == q)
		prev = r
	}
	vrt.Assert(cnt == 0, "C03/S2/conserve")
	vrt.Assert(vrt.And(h.Size() == 0, h.IsEmpty()), "C03/S2/drained")
	vrt.Cover("C03/S2/drained")
}

func zvS2Comp(kind int) func(a, b int) bool {
	if kind == 0 {
		return func(a, b int) bool { return a < b }
	}
	return func(a, b int) bool { return a > b }
}

// FromSlice + Sort through the API with a by-key comparator on structs (ties between distinct values).
type zvPair struct{ k, v int }

func ZvC03_S2_PairsByKey() {
	n := vrt.Choice(vrt.Pick(4, 5) + 1)
	a := make([]zvPair, n)
	for i := range a {
		a[i] = zvPair{vrt.Int(), vrt.Int()}
	}
	pre := append([]zvPair(nil), a...)
	comp := func(x, y zvPair) bool { return x.k > y.k }
	h := FromSlice(a, comp)
	q := zvPair{vrt.Int(), vrt.Int()}
	cnt := func(s []zvPair) int {
		c := 0
		for _, x := range s {
			c += vrt.B2I(x == q)
		}
		return c
	}
	want := cnt(pre)
	got := 0
	var prev zvPair
	for i := 0; i < n; i++ {
		pk := h.Peek()
		r := h.Pop()
		vrt.Assert(pk == r, "C03/S2/Pairs/Peek-is-next-Pop")
		if i > 0 {
			vrt.Assert(!comp(r, prev), "C03/S2/Pairs/drain-ordered")
		}
		got += vrt.B2I(r == q)
		prev = r
	}
	vrt.Assert(got == want, "C03/S2/Pairs/conserve")
	vrt.Assert(h.Size() == 0, "C03/S2/Pairs/drained")
}

// ZvC03_LongRun: one long scenario beyond the size bound — 60 concrete values (with duplicates)
// pushed in a scrambled order into a min- or max-heap (depth 6), Peek/Pop drained completely:
// comparator order, conservation and Size at every step; then FromSlice + Sort of the same values.
// Values are concrete, so nothing forks.
func ZvC03_LongRun() {
	const N = 60
	kind := vrt.Choice(2)
	comp := zvS2Comp(kind)
	h := NewHeap(comp)
	var vals []int
	count := map[int]int{}
	for i := 0; i < N; i++ {
		v := (i*37 + 11) % 41 // 0..40, some values twice
		vals = append(vals, v)
		count[v]++
		h.Push(v)
		vrt.Assert(h.Size() == i+1, "C03/long-run/Size-while-growing")
	}
	prev := 0
	for i := 0; i < N; i++ {
		pk := h.Peek()
		r := h.Pop()
		vrt.Assert(pk == r, "C03/long-run/Peek-is-next-Pop")
		if i > 0 {
			vrt.Assert(!comp(r, prev), "C03/long-run/drain-in-comparator-order")
		}
		count[r]--
		vrt.Assert(count[r] >= 0, "C03/long-run/never-returns-unheld")
		vrt.Assert(h.Size() == N-1-i, "C03/long-run/Size-while-draining")
		prev = r
	}
	vrt.Assert(vrt.And(h.IsEmpty(), h.Pop() == 0), "C03/long-run/empty-at-the-end")
	sorted := Sort(append([]int(nil), vals...), comp)
	ok := len(sorted) == N
	for i := 0; i+1 < len(sorted); i++ {
		ok = ok && !comp(sorted[i], sorted[i+1])
	}
	vrt.Assert(ok, "C03/long-run/Sort-orders-oppositely-to-the-comparator")
}
