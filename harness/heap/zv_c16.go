package heap

// C16 — heap.FromSlice and heap.Sort are in place by contract: they touch that one argument only
// (not the memory around it) and return a view of it.

import (
	vrt "github.com/esimov/gogu/zzvrt"
)

func ZvC16_HeapInPlace() {
	n := vrt.Choice(vrt.Pick(4, 5) + 1)
	back := zvInts(n + 3)
	pre := append([]int(nil), back...)
	s := back[1 : 1+n]
	comp := zvComp(vrt.Choice(2))
	var view []int
	if vrt.Choice(2) == 0 {
		view = FromSlice(s, comp).GetValues()
	} else {
		view = Sort(s, comp)
	}
	vrt.Assert(vrt.And(back[0] == pre[0], back[n+1] == pre[n+1], back[n+2] == pre[n+2]), "C16/heap/in-place-helper-touches-only-its-argument")
	// (whether the returned values share storage with the argument is not part of the property:
	// GetValues hands out a copy since the C01 repair)
	vrt.Assert(len(view) == n, "C16/heap/result-length")
}
