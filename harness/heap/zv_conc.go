package heap

// C01 / C02 — concurrent programs over Heap[int] through the public API only (driver:
// zzvrt.ConcCheck). Merge/Meld take a second shared heap; GetValues' result is read afterwards
// by the caller holding nothing, as a caller would.

import (
	vrt "github.com/esimov/gogu/zzvrt"
)

const (
	zhPush = iota
	zhPop
	zhPeek
	zhSize
	zhIsEmpty
	zhClear
	zhDelete
	zhGetValues
	zhConvert
	zhMerge
	zhMeld
)

var zvHNames = [...]string{"Push", "Pop", "Peek", "Size", "IsEmpty", "Clear", "Delete", "GetValues", "Convert", "Merge", "Meld"}
var zvHAll = []int{zhPush, zhPop, zhPeek, zhSize, zhIsEmpty, zhClear, zhDelete, zhGetValues, zhConvert, zhMerge, zhMeld}
var zvHSingle = []int{zhPush, zhPop, zhPeek, zhSize, zhIsEmpty, zhClear, zhDelete}

func zvLess(a, b int) bool    { return a < b }
func zvGreater(a, b int) bool { return a > b }

type zvH struct{ h, h2 *Heap[int] }

func (z zvH) Apply(c vrt.ConcCall) (r vrt.ConcRes) {
	vrt.Note(zvHNames[c.K])
	r.Pan = vrt.Try(func() {
		switch c.K {
		case zhPush:
			z.h.Push(c.X)
		case zhPop:
			r.V = z.h.Pop()
		case zhPeek:
			r.V = z.h.Peek()
		case zhSize:
			r.V = z.h.Size()
		case zhIsEmpty:
			r.OK = z.h.IsEmpty()
		case zhClear:
			z.h.Clear()
		case zhDelete:
			ok, err := z.h.Delete(c.X)
			r.OK = vrt.And(ok, err == nil)
		case zhGetValues:
			for _, v := range z.h.GetValues() {
				r.V += v
			}
		case zhConvert:
			z.h.Convert(zvGreater)
			z.h.Convert(zvLess)
		case zhMerge:
			r.V = z.h.Merge(z.h2).Size()
		case zhMeld:
			r.V = z.h.Meld(z.h2).Size()
		}
	})
	return
}

func (z zvH) Observe(_ []int) []int {
	out := []int{z.h.Size()}
	for i := 0; i < 8 && z.h.Size() > 0; i++ {
		out = append(out, z.h.Pop())
	}
	return out
}

func zvMkHeap(vals []int, second int) func() vrt.ConcInst {
	return func() vrt.ConcInst {
		h := NewHeap(zvLess)
		for _, v := range vals {
			h.Push(v)
		}
		h2 := NewHeap(zvLess)
		h2.Push(second)
		return zvH{h, h2}
	}
}

func zvCVals(max int) []int {
	n := vrt.Choice(max + 1)
	vals := make([]int, n)
	for i := range vals {
		vals[i] = vrt.Int()
	}
	return vals
}

// after the program: a pushed value smaller than everything comes out first
func zvHFollow(q vrt.ConcInst) bool {
	h := q.(zvH).h
	n0 := h.Size()
	h.Push(-1 << 63)
	return vrt.And(h.Size() == n0+1, h.Pop() == -1<<63, h.Size() == n0)
}

func ZvC01_Heap() {
	vrt.ConcShapes = 1 // all eleven methods pairwise
	vrt.ConcCheck("C01", "Heap", zvMkHeap(zvCVals(2), vrt.Int()), vrt.ConcProgram(vrt.ConcShape(), zvHAll), nil, true, false, zvHFollow)
}
func ZvC02_Heap() {
	vrt.ConcShapes = 2
	vrt.ConcCheck("C02", "Heap", zvMkHeap(zvCVals(2), 0), vrt.ConcProgram(vrt.ConcShape(), zvHSingle), nil, false, true, nil)
}
