package heap

import (
	"sync"

	vrt "github.com/esimov/gogu/zzvrt"
)

// Comparator families: 0 "<" (min-heap), 1 ">" (max-heap), 2 uninterpreted strict weak order.
func zvComp(kind int) func(a, b int) bool {
	switch kind {
	case 0:
		return func(a, b int) bool { return a < b }
	case 1:
		return func(a, b int) bool { return a > b }
	}
	return func(a, b int) bool { return vrt.RelInt(a, b) }
}

// zvHeapN builds an arbitrary heap-ordered Heap[int] with exactly n elements, spare capacity 0 or 2.
// extra are further values the operation will compare (carrier of the uninterpreted order).
func zvHeapN(n, kind int, extra ...int) (*Heap[int], []int) {
	spare := 2 * vrt.Choice(2)
	arr := make([]int, n, n+spare)
	for i := range arr {
		arr[i] = vrt.Int()
	}
	comp := zvComp(kind)
	if kind == 2 {
		vrt.AssumeSWO(append(append([]int(nil), arr...), extra...)...)
	}
	for i := 1; i < n; i++ {
		vrt.Assume(!comp(arr[i], arr[(i-1)/2]))
	}
	pre := append([]int(nil), arr...)
	return &Heap[int]{mu: new(sync.RWMutex), comp: comp, data: arr}, pre
}

func zvHeapInv(data []int, comp func(a, b int) bool, id string) {
	ok := true
	for i := 1; i < len(data); i++ {
		ok = vrt.And(ok, !comp(data[i], data[(i-1)/2]))
	}
	vrt.Assert(ok, id)
}

func zvKind() int { return vrt.Choice(3) }

func ZvC03_S1_Push() {
	kind := zvKind()
	n := vrt.Choice(vrt.Pick(6, 8) + 1)
	v := vrt.Int()
	h, pre := zvHeapN(n, kind, v)
	vrt.Assert(!vrt.Try(func() { h.Push(v) }), "C03/Push/no-panic")
	post := h.data
	vrt.Assert(len(post) == n+1, "C03/Push/size")
	q := vrt.Int()
	vrt.Assert(vrt.CountInt(post, q) == vrt.CountInt(pre, q)+vrt.B2I(q == v), "C03/Push/conserve")
	zvHeapInv(post, h.comp, "C03/Push/heap-order")
	vrt.Assert(h.Size() == n+1, "C03/Push/Size")
	vrt.Cover("C03/Push/done")
}

func ZvC03_S1_Pop() {
	kind := zvKind()
	n := vrt.Choice(vrt.Pick(6, 9) + 1)
	h, pre := zvHeapN(n, kind)
	var r int
	vrt.Assert(!vrt.Try(func() { r = h.Pop() }), "C03/Pop/no-panic")
	post := h.data
	if n == 0 {
		vrt.Assert(vrt.And(r == 0, len(post) == 0), "C03/Pop/empty")
		vrt.Cover("C03/Pop/empty")
		return
	}
	vrt.Assert(len(post) == n-1, "C03/Pop/size")
	none := true
	for i := range pre {
		none = vrt.And(none, !h.comp(pre[i], r))
	}
	vrt.Assert(none, "C03/Pop/nothing-precedes")
	vrt.Assert(vrt.CountInt(pre, r) >= 1, "C03/Pop/returns-element")
	q := vrt.Int()
	vrt.Assert(vrt.CountInt(post, q)+vrt.B2I(q == r) == vrt.CountInt(pre, q), "C03/Pop/conserve")
	zvHeapInv(post, h.comp, "C03/Pop/heap-order")
	vrt.Cover("C03/Pop/nonempty")
}
