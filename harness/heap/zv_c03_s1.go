package heap

// C03 — S1 harnesses: one real operation from an ARBITRARY heap-ordered representation
// (symbolic elements, every size up to the bound), checked against the multiset/ordering contract.
// Touches unexported fields (mu, comp, data): if the representation changes this file is dropped
// by the loader and zv_c03_s2.go (API only) decides alone.

import (
	"sync"

	vrt "github.com/esimov/gogu/zzvrt"
)

// Comparator families: 0 "<" (min-heap), 1 ">" (max-heap), 2 uninterpreted strict weak order.
func zvComp(kind int) func(a, b int) bool {
	switch kind {
	case 0:
		return func(a, b int) bool { return a < b }
	case 1:
		return func(a, b int) bool { return a > b }
	}
	return func(a, b int) bool { return vrt.RelInt(a, b) }
}

func zvInts(n int) []int {
	a := make([]int, n)
	for i := range a {
		a[i] = vrt.Int()
	}
	return a
}

// zvHeapOf wraps arr (assumed heap-ordered by the caller) into a Heap.
func zvHeapOf(arr []int, comp func(a, b int) bool) *Heap[int] {
	return &Heap[int]{mu: new(sync.RWMutex), comp: comp, data: arr}
}

func zvAssumeHeap(arr []int, comp func(a, b int) bool) {
	for i := 1; i < len(arr); i++ {
		vrt.Assume(!comp(arr[i], arr[(i-1)/2]))
	}
}

// zvHeapN builds an arbitrary heap-ordered Heap[int] with exactly n elements and spare capacity
// 0 or 2. extra are further values the operation will compare (carrier of the uninterpreted order).
func zvHeapN(n, kind int, extra ...int) (*Heap[int], []int) {
	spare := 2 * vrt.Choice(2)
	arr := make([]int, n, n+spare)
	for i := range arr {
		arr[i] = vrt.Int()
	}
	comp := zvComp(kind)
	if kind == 2 {
		vrt.AssumeSWO(append(append([]int(nil), arr...), extra...)...)
	}
	zvAssumeHeap(arr, comp)
	pre := append([]int(nil), arr...)
	return zvHeapOf(arr, comp), pre
}

func zvIsHeap(data []int, comp func(a, b int) bool) bool {
	ok := true
	for i := 1; i < len(data); i++ {
		ok = vrt.And(ok, !comp(data[i], data[(i-1)/2]))
	}
	return ok
}

func zvKind() int { return vrt.Choice(3) }

func ZvC03_S1_New() {
	h := NewHeap(zvComp(0))
	vrt.Assert(vrt.And(h.Size() == 0, h.IsEmpty(), len(h.GetValues()) == 0, h.Peek() == 0, h.Pop() == 0), "C03/New/empty")
}

func ZvC03_S1_Push() {
	kind := zvKind()
	n := vrt.Choice(vrt.Pick(6, 8) + 1)
	v := vrt.Int()
	h, pre := zvHeapN(n, kind, v)
	vrt.Assert(!vrt.Try(func() { h.Push(v) }), "C03/Push/no-panic")
	post := h.data
	vrt.Assert(len(post) == n+1, "C03/Push/size")
	q := vrt.Int()
	vrt.Assert(vrt.CountInt(post, q) == vrt.CountInt(pre, q)+vrt.B2I(q == v), "C03/Push/conserve")
	vrt.Assert(zvIsHeap(post, h.comp), "C03/Push/heap-order")
	vrt.Assert(vrt.And(h.Size() == n+1, !h.IsEmpty()), "C03/Push/Size")
	vrt.Assert(vrt.LocksHeld() == 0, "C03/Push/lock-released")
	vrt.Cover("C03/Push/done")
}

// Push of several values at once (variadic) is a sequence of single pushes.
func ZvC03_S1_PushMany() {
	kind := zvKind()
	n := vrt.Choice(vrt.Pick(3, 4) + 1)
	v, w := vrt.Int(), vrt.Int()
	h, pre := zvHeapN(n, kind, v, w)
	vrt.Assert(!vrt.Try(func() { h.Push(v, w) }), "C03/PushMany/no-panic")
	post := h.data
	q := vrt.Int()
	vrt.Assert(vrt.CountInt(post, q) == vrt.CountInt(pre, q)+vrt.B2I(q == v)+vrt.B2I(q == w), "C03/PushMany/conserve")
	vrt.Assert(zvIsHeap(post, h.comp), "C03/PushMany/heap-order")
}

func ZvC03_S1_Pop() {
	kind := zvKind()
	n := vrt.Choice(vrt.Pick(6, 9) + 1)
	h, pre := zvHeapN(n, kind)
	var r int
	vrt.Assert(!vrt.Try(func() { r = h.Pop() }), "C03/Pop/no-panic")
	post := h.data
	vrt.Assert(vrt.LocksHeld() == 0, "C03/Pop/lock-released")
	if n == 0 {
		vrt.Assert(vrt.And(r == 0, len(post) == 0), "C03/Pop/empty")
		vrt.Cover("C03/Pop/empty")
		return
	}
	vrt.Assert(len(post) == n-1, "C03/Pop/size")
	none := true
	for i := range pre {
		none = vrt.And(none, !h.comp(pre[i], r))
	}
	vrt.Assert(none, "C03/Pop/nothing-precedes")
	vrt.Assert(vrt.CountInt(pre, r) >= 1, "C03/Pop/returns-element")
	q := vrt.Int()
	vrt.Assert(vrt.CountInt(post, q)+vrt.B2I(q == r) == vrt.CountInt(pre, q), "C03/Pop/conserve")
	vrt.Assert(zvIsHeap(post, h.comp), "C03/Pop/heap-order")
	vrt.Cover("C03/Pop/nonempty")
}

func ZvC03_S1_Observers() {
	kind := zvKind()
	n := vrt.Choice(vrt.Pick(6, 9) + 1)
	h, pre := zvHeapN(n, kind)
	r := h.Peek()
	if n == 0 {
		vrt.Assert(r == 0, "C03/Peek/empty")
	} else {
		none := true
		for i := range pre {
			none = vrt.And(none, !h.comp(pre[i], r))
		}
		vrt.Assert(vrt.And(none, vrt.CountInt(pre, r) >= 1), "C03/Peek/extremal-element")
	}
	vrt.Assert(vrt.And(h.Size() == n, h.IsEmpty() == (n == 0)), "C03/Size")
	vrt.Assert(vrt.SeqEqInt(h.GetValues(), pre), "C03/GetValues")
	vrt.Assert(vrt.SeqEqInt(h.data, pre), "C03/observers-do-not-modify")
	vrt.Assert(vrt.LocksHeld() == 0, "C03/observers/lock-released")
}

func ZvC03_S1_Clear() {
	n := vrt.Choice(vrt.Pick(4, 6) + 1)
	h, _ := zvHeapN(n, 0)
	h.Clear()
	vrt.Assert(vrt.And(h.Size() == 0, h.IsEmpty(), h.Peek() == 0, h.Pop() == 0), "C03/Clear/empty")
	v := vrt.Int()
	h.Push(v)
	vrt.Assert(vrt.And(h.Size() == 1, h.Peek() == v), "C03/Clear/usable-after")
}

// Delete: the implementation re-sifts from the root with the pre-truncation length, which breaks the
// heap order / indexes out of range for present values when n >= 2 (pinned by TestHeap_MaxHeap):
// known finding C03-KF1/KF2, scoped to those two clauses. Everything else about Delete is enforced.
func ZvC03_S1_Delete() {
	kind := zvKind()
	n := vrt.Choice(vrt.Pick(6, 8) + 1)
	v := vrt.Int()
	h, pre := zvHeapN(n, kind, v)
	present := vrt.CountInt(pre, v) >= 1
	kf := vrt.And(present, n >= 2)
	var ok bool
	var err error
	panicked := vrt.Try(func() { ok, err = h.Delete(v) })
	vrt.AssertUnless(kf, !panicked, "C03/Delete/no-panic")
	post := h.data
	q := vrt.Int()
	if panicked {
		// the removal itself happened before the faulty re-sift
		vrt.Assert(vrt.CountInt(post, q)+vrt.B2I(q == v) == vrt.CountInt(pre, q), "C03/Delete/conserve-on-panic-path")
		vrt.Cover("C03/Delete/known-panic")
		return
	}
	vrt.Assert(ok == present, "C03/Delete/reports-presence")
	vrt.Assert((err == nil) == present, "C03/Delete/error-iff-absent")
	vrt.Assert(vrt.CountInt(post, q)+vrt.B2I(vrt.And(present, q == v)) == vrt.CountInt(pre, q), "C03/Delete/conserve")
	vrt.Assert(len(post) == n-vrt.B2I(present), "C03/Delete/size")
	vrt.AssertUnless(kf, zvIsHeap(post, h.comp), "C03/Delete/heap-order")
	vrt.Assert(vrt.LocksHeld() == 0, "C03/Delete/lock-released")
	vrt.Cover("C03/Delete/done")
}

func ZvC03_S1_Convert() {
	kind := zvKind()
	n := vrt.Choice(vrt.Pick(5, 7) + 1)
	h, pre := zvHeapN(n, kind)
	k2 := vrt.Choice(2)
	c2 := zvComp(k2)
	vrt.Assert(!vrt.Try(func() { h.Convert(c2) }), "C03/Convert/no-panic")
	post := h.data
	q := vrt.Int()
	vrt.Assert(vrt.CountInt(post, q) == vrt.CountInt(pre, q), "C03/Convert/conserve")
	vrt.Assert(len(post) == n, "C03/Convert/size")
	vrt.Assert(zvIsHeap(post, c2), "C03/Convert/heap-order-under-new-comparator")
	// the new comparator is in force for later operations
	if n > 0 {
		r := h.Peek()
		none := true
		for i := range pre {
			none = vrt.And(none, !c2(pre[i], r))
		}
		vrt.Assert(none, "C03/Convert/peek-uses-new-comparator")
	}
	// ... also when the heap was too small for Convert to have anything to reorder: elements
	// pushed afterwards are ordered by the NEW comparator
	// (for n >= 2 the Peek above already shows which comparator is installed)
	if n <= 1 {
		x, y := vrt.Int(), vrt.Int()
		h.Push(x)
		h.Push(y)
		vrt.Assert(zvIsHeap(h.data, c2), "C03/Convert/later-pushes-ordered-by-new-comparator")
		top := h.Peek()
		vrt.Assert(vrt.And(!c2(x, top), !c2(y, top)), "C03/Convert/later-peek-uses-new-comparator")
	}
}

func ZvC03_S1_FromSlice() {
	kind := zvKind()
	n := vrt.Choice(vrt.Pick(5, 7) + 1)
	a := zvInts(n)
	if kind == 2 {
		vrt.AssumeSWO(a...)
	}
	pre := append([]int(nil), a...)
	comp := zvComp(kind)
	var h *Heap[int]
	vrt.Assert(!vrt.Try(func() { h = FromSlice(a, comp) }), "C03/FromSlice/no-panic")
	q := vrt.Int()
	vrt.Assert(vrt.CountInt(h.data, q) == vrt.CountInt(pre, q), "C03/FromSlice/conserve")
	vrt.Assert(vrt.And(len(h.data) == n, h.Size() == n), "C03/FromSlice/size")
	vrt.Assert(zvIsHeap(h.data, comp), "C03/FromSlice/heap-order")
	vrt.Cover("C03/FromSlice/done")
}

func ZvC03_S1_Sort() {
	kind := zvKind()
	n := vrt.Choice(vrt.Pick(5, 6) + 1)
	a := zvInts(n)
	if kind == 2 {
		vrt.AssumeSWO(a...)
	}
	pre := append([]int(nil), a...)
	comp := zvComp(kind)
	var res []int
	vrt.Assert(!vrt.Try(func() { res = Sort(a, comp) }), "C03/Sort/no-panic")
	q := vrt.Int()
	vrt.Assert(vrt.And(len(res) == n, vrt.CountInt(res, q) == vrt.CountInt(pre, q)), "C03/Sort/permutation")
	ok := true
	for i := 0; i < len(res); i++ {
		for j := i + 1; j < len(res); j++ {
			ok = vrt.And(ok, !comp(res[i], res[j]))
		}
	}
	vrt.Assert(ok, "C03/Sort/ordered-opposite-to-comparator")
	vrt.Cover("C03/Sort/done")
}

func zvMergeLike(meld bool, id string) {
	kind := zvKind()
	m := vrt.Pick(2, 3)
	n1 := vrt.Choice(m + 1)
	n2 := vrt.Choice(m + 1)
	a1, a2 := zvInts(n1), zvInts(n2)
	// the receiver's array may have spare capacity (grown by Push, shrunk by Pop/Clear): a result
	// built by appending to it would share its storage
	if sp := 2 * vrt.Choice(2); sp > 0 {
		b := make([]int, n1, n1+sp)
		copy(b, a1)
		a1 = b
	}
	comp := zvComp(kind)
	if kind == 2 {
		vrt.AssumeSWO(append(append([]int(nil), a1...), a2...)...)
	}
	zvAssumeHeap(a1, comp)
	// the argument heap may be ordered by ANOTHER comparator (built with the opposite one, or
	// switched by Convert): the result is ordered by the receiver's
	comp2 := comp
	if kind < 2 && vrt.Choice(2) == 1 {
		comp2 = zvComp(1 - kind)
	}
	zvAssumeHeap(a2, comp2)
	h1, h2 := zvHeapOf(a1, comp), zvHeapOf(a2, comp2)
	p1, p2 := append([]int(nil), a1...), append([]int(nil), a2...)
	var res *Heap[int]
	vrt.Assert(!vrt.Try(func() {
		if meld {
			res = h1.Meld(h2)
		} else {
			res = h1.Merge(h2)
		}
	}), id+"/no-panic")
	q := vrt.Int()
	vrt.Assert(vrt.CountInt(res.data, q) == vrt.CountInt(p1, q)+vrt.CountInt(p2, q), id+"/multiset-sum")
	vrt.Assert(res.Size() == n1+n2, id+"/size")
	vrt.Assert(zvIsHeap(res.data, comp), id+"/heap-order")
	if meld {
		vrt.Assert(vrt.And(h1.Size() == 0, h2.Size() == 0, h1.IsEmpty(), h2.IsEmpty()), id+"/inputs-emptied")
	} else {
		vrt.Assert(vrt.And(vrt.SeqEqInt(h1.data, p1), vrt.SeqEqInt(h2.data, p2)), id+"/inputs-intact")
		// the result does not share storage with the inputs: changing it leaves them intact
		res.Push(vrt.Int())
		vrt.Assert(vrt.And(vrt.SeqEqInt(h1.data, p1), vrt.SeqEqInt(h2.data, p2)), id+"/inputs-intact-after-push")
		res.Pop()
		vrt.Assert(vrt.And(vrt.SeqEqInt(h1.data, p1), vrt.SeqEqInt(h2.data, p2)), id+"/inputs-intact-after-pop")
		// ... and later changes of an input leave the result intact
		snap := append([]int(nil), res.data...)
		h1.Push(vrt.Int())
		h1.Pop()
		vrt.Assert(vrt.SeqEqInt(res.data, snap), id+"/result-intact-after-input-changes")
	}
}

func ZvC03_S1_Merge() { zvMergeLike(false, "C03/Merge") }
func ZvC03_S1_Meld()  { zvMergeLike(true, "C03/Meld") }
