package list

// C19 — S2: every operation sequence up to L from Init / InitDList with pairwise distinct symbolic
// values and node handles obtained from Find immediately before use, compared step by step with a
// slice model (contents read back through Each, First, Last, Find). Public API only.

import (
	vrt "github.com/esimov/gogu/zzvrt"
)

// zvFresh returns a new symbolic value distinct from every value used so far.
func zvFresh(used *[]int) int {
	x := vrt.Int()
	for _, y := range *used {
		vrt.Assume(x != y)
	}
	*used = append(*used, x)
	return x
}

func zvInsert(s []int, i int, x int) []int {
	out := append([]int(nil), s[:i]...)
	out = append(out, x)
	return append(out, s[i:]...)
}

func zvRemove(s []int, i int) []int {
	out := append([]int(nil), s[:i]...)
	return append(out, s[i+1:]...)
}

func ZvC19_S2_SList() {
	var used []int
	x0 := zvFresh(&used)
	l := Init(x0)
	ref := []int{x0}
	steps := vrt.Choice(vrt.Pick(4, 5)) + 1
	for s := 0; s < steps; s++ {
		op := vrt.Choice(8)
		panicked := vrt.Try(func() {
			switch op {
			case 0:
				x := zvFresh(&used)
				l.Unshift(x)
				ref = zvInsert(ref, 0, x)
			case 1:
				x := zvFresh(&used)
				l.Append(x)
				ref = append(ref, x)
			case 2:
				if len(ref) > 1 { // single-element Shift: effect not specified by the statement
					l.Shift()
					ref = ref[1:]
				}
			case 3:
				l.Pop()
				if len(ref) > 1 {
					ref = ref[:len(ref)-1]
				}
			case 4:
				i := vrt.Choice(len(ref))
				x := zvFresh(&used)
				nd, ok := l.Find(ref[i])
				vrt.Assert(vrt.And(ok, nd != nil), "C19/SList/Find-present")
				err := l.InsertAfter(nd, x)
				vrt.Assert(err == nil, "C19/SList/InsertAfter-no-error")
				ref = zvInsert(ref, i+1, x)
			case 5:
				i := vrt.Choice(len(ref))
				nd, ok := l.Find(ref[i])
				vrt.Assert(vrt.And(ok, nd != nil), "C19/SList/Find-present")
				err := l.Delete(nd)
				if len(ref) == 1 {
					vrt.Assert(err != nil, "C19/SList/Delete-refuses-only-node")
				} else {
					vrt.Assert(err == nil, "C19/SList/Delete-no-error")
					ref = zvRemove(ref, i)
				}
			case 6:
				z := zvFresh(&used)
				if vrt.Choice(2) == 0 {
					i := vrt.Choice(len(ref))
					err := l.Replace(ref[i], z)
					vrt.Assert(err == nil, "C19/SList/Replace-present")
					ref = append([]int(nil), ref...)
					ref[i] = z
				} else {
					y := zvFresh(&used)
					err := l.Replace(y, z)
					vrt.Assert(err != nil, "C19/SList/Replace-absent-reports-error")
				}
			case 7:
				y := zvFresh(&used)
				nd, ok := l.Find(y)
				vrt.Assert(vrt.And(!ok, nd == nil), "C19/SList/Find-absent")
				err := l.InsertAfter(nil, y)
				vrt.Assert(err != nil, "C19/SList/InsertAfter-nil-handle-error")
			}
		})
		vrt.Assert(!panicked, "C19/SList/no-panic")
		var got []int
		vrt.Assert(!vrt.Try(func() { l.Each(func(v int) { got = append(got, v) }) }), "C19/SList/Each-no-panic")
		vrt.Assert(vrt.SeqEqInt(got, ref), "C19/SList/sequence")
		var again []int
		l.Each(func(v int) { again = append(again, v) })
		vrt.Assert(vrt.SeqEqInt(again, ref), "C19/SList/Each-does-not-change-the-list")
	}
	vrt.Cover("C19/SList/end")
}

func ZvC19_S2_DList() {
	var used []int
	x0 := zvFresh(&used)
	l := InitDList(x0)
	ref := []int{x0}
	steps := vrt.Choice(vrt.Pick(4, 5)) + 1
	for s := 0; s < steps; s++ {
		op := vrt.Choice(9)
		panicked := vrt.Try(func() {
			switch op {
			case 0:
				x := zvFresh(&used)
				l.Unshift(x)
				ref = zvInsert(ref, 0, x)
			case 1:
				x := zvFresh(&used)
				l.Append(x)
				ref = append(ref, x)
			case 2:
				if len(ref) > 1 {
					nd := l.Shift()
					vrt.Assert(vrt.And(nd != nil, l.Val(nd) == ref[0]), "C19/DList/Shift-returns-first")
					ref = ref[1:]
				}
			case 3:
				l.Pop()
				if len(ref) > 1 {
					ref = ref[:len(ref)-1]
				}
			case 4:
				i := vrt.Choice(len(ref))
				x := zvFresh(&used)
				nd, ok := l.Find(ref[i])
				vrt.Assert(vrt.And(ok, nd != nil), "C19/DList/Find-present")
				err := l.InsertAfter(nd, x)
				vrt.Assert(err == nil, "C19/DList/InsertAfter-no-error")
				ref = zvInsert(ref, i+1, x)
			case 5:
				i := vrt.Choice(len(ref))
				x := zvFresh(&used)
				nd, ok := l.Find(ref[i])
				vrt.Assert(vrt.And(ok, nd != nil), "C19/DList/Find-present")
				err := l.InsertBefore(nd, x)
				vrt.Assert(err == nil, "C19/DList/InsertBefore-no-error")
				ref = zvInsert(ref, i, x)
			case 6:
				i := vrt.Choice(len(ref))
				nd, ok := l.Find(ref[i])
				vrt.Assert(vrt.And(ok, nd != nil), "C19/DList/Find-present")
				err := l.Delete(nd)
				if len(ref) == 1 {
					vrt.Assert(err != nil, "C19/DList/Delete-refuses-only-node")
				} else {
					vrt.Assert(err == nil, "C19/DList/Delete-no-error")
					ref = zvRemove(ref, i)
				}
			case 7:
				z := zvFresh(&used)
				if vrt.Choice(2) == 0 {
					i := vrt.Choice(len(ref))
					err := l.Replace(ref[i], z)
					vrt.Assert(err == nil, "C19/DList/Replace-present")
					ref = append([]int(nil), ref...)
					ref[i] = z
				} else {
					y := zvFresh(&used)
					err := l.Replace(y, z)
					vrt.Assert(err != nil, "C19/DList/Replace-absent-reports-error")
				}
			case 8:
				y := zvFresh(&used)
				nd, ok := l.Find(y)
				vrt.Assert(vrt.And(!ok, nd == nil), "C19/DList/Find-absent")
				vrt.Assert(vrt.And(l.InsertAfter(nil, y) != nil, l.InsertBefore(nil, y) != nil), "C19/DList/Insert-nil-handle-error")
			}
		})
		vrt.Assert(!panicked, "C19/DList/no-panic")
		var got []int
		vrt.Assert(!vrt.Try(func() { l.Each(func(v int) { got = append(got, v) }) }), "C19/DList/Each-no-panic")
		vrt.Assert(vrt.SeqEqInt(got, ref), "C19/DList/sequence")
		vrt.Assert(vrt.And(l.First() == ref[0], l.Last() == ref[len(ref)-1]), "C19/DList/First-Last")
		var again []int
		l.Each(func(v int) { again = append(again, v) })
		vrt.Assert(vrt.SeqEqInt(again, ref), "C19/DList/observers-do-not-change-the-list")
	}
	vrt.Cover("C19/DList/end")
}

// ZvC19_LongRun_DList: one long scenario beyond the history bound — 60 edits with concrete, pairwise
// distinct values driven by a fixed script (all eight edit kinds, handles taken from Find right
// before use, every position incl. first and last) against a slice model, the list read back
// through Each/First/Last after every edit. Concrete values: nothing forks.
func ZvC19_LongRun_DList() {
	next := 100
	fresh := func() int { next++; return next }
	x0 := fresh()
	l := InitDList(x0)
	ref := []int{x0}
	for s := 0; s < 60; s++ {
		op := (s*5 + 1) % 8
		if len(ref) < 3 {
			op = s % 2 // grow first
		}
		pos := (s * 3) % len(ref)
		switch op {
		case 0:
			x := fresh()
			l.Unshift(x)
			ref = zvInsert(ref, 0, x)
		case 1:
			x := fresh()
			l.Append(x)
			ref = append(ref, x)
		case 2:
			nd := l.Shift()
			vrt.Assert(vrt.And(nd != nil, l.Val(nd) == ref[0]), "C19/DList/long-run/Shift-returns-first")
			ref = ref[1:]
		case 3:
			l.Pop()
			ref = ref[:len(ref)-1]
		case 4:
			x := fresh()
			nd, ok := l.Find(ref[pos])
			vrt.Assert(ok, "C19/DList/long-run/Find-present")
			vrt.Assert(l.InsertAfter(nd, x) == nil, "C19/DList/long-run/InsertAfter")
			ref = zvInsert(ref, pos+1, x)
		case 5:
			x := fresh()
			nd, ok := l.Find(ref[pos])
			vrt.Assert(ok, "C19/DList/long-run/Find-present")
			vrt.Assert(l.InsertBefore(nd, x) == nil, "C19/DList/long-run/InsertBefore")
			ref = zvInsert(ref, pos, x)
		case 6:
			nd, ok := l.Find(ref[pos])
			vrt.Assert(ok, "C19/DList/long-run/Find-present")
			vrt.Assert(l.Delete(nd) == nil, "C19/DList/long-run/Delete")
			ref = zvRemove(ref, pos)
		case 7:
			z := fresh()
			vrt.Assert(l.Replace(ref[pos], z) == nil, "C19/DList/long-run/Replace")
			ref = append([]int(nil), ref...)
			ref[pos] = z
		}
		var got []int
		l.Each(func(v int) { got = append(got, v) })
		vrt.Assert(vrt.SeqEqInt(got, ref), "C19/DList/long-run/sequence")
		vrt.Assert(vrt.And(l.First() == ref[0], l.Last() == ref[len(ref)-1]), "C19/DList/long-run/First-Last")
	}
}
