package trie

// C01 / C02 — concurrent programs over Trie[string,int] through the public API only (driver:
// zzvrt.ConcCheck). Keys are 1- or 2-byte strings with symbolic bytes, so the solver decides
// which keys coincide or are prefixes of one another.

import (
	"github.com/esimov/gogu/queue"
	vrt "github.com/esimov/gogu/zzvrt"
)

const (
	ztPut = iota
	ztGet
	ztContains
	ztSize
	ztLongestPrefix
	ztStartsWith
	ztKeys
)

var zvTNames = [...]string{"Put", "Get", "Contains", "Size", "LongestPrefix", "StartsWith", "Keys"}
var zvTAll = []int{ztPut, ztGet, ztContains, ztSize, ztLongestPrefix, ztStartsWith, ztKeys}
var zvTSingle = []int{ztPut, ztGet, ztContains, ztSize}

func zvKey(x, l int) string {
	if l == 0 {
		return string([]byte{byte(x)})
	}
	return string([]byte{byte(x), byte(x >> 8)})
}

func zvEnc(k string) int {
	v := len(k) << 16
	for i := 0; i < len(k); i++ {
		v |= int(k[i]) << (8 * i)
	}
	return v
}

type zvT struct{ t *Trie[string, int] }

func zvDrainQ(q Queuer[string]) int {
	s := 0
	for i := 0; i < 8 && q.Size() > 0; i++ {
		k, _ := q.Dequeue()
		s = s*31 + zvEnc(k)
	}
	return s
}

func (z zvT) Apply(c vrt.ConcCall) (r vrt.ConcRes) {
	vrt.Note(zvTNames[c.K])
	key := zvKey(c.X, c.L)
	r.Pan = vrt.Try(func() {
		switch c.K {
		case ztPut:
			z.t.Put(key, c.Y)
		case ztGet:
			r.V, r.OK = z.t.Get(key)
		case ztContains:
			r.OK = z.t.Contains(key)
		case ztSize:
			r.V = z.t.Size()
		case ztLongestPrefix:
			p, err := z.t.LongestPrefix(key)
			r.V, r.OK = zvEnc(p), err == nil
		case ztStartsWith:
			q, err := z.t.StartsWith(key)
			r.V, r.OK = q.Size(), err == nil
		case ztKeys:
			q, err := z.t.Keys()
			r.V, r.OK = q.Size(), err == nil
		}
	})
	return
}

func (z zvT) Observe(_ []int) []int {
	out := []int{z.t.Size()}
	q, _ := z.t.Keys()
	for i := 0; i < 8 && q.Size() > 0; i++ {
		k, _ := q.Dequeue()
		v, ok := z.t.Get(k)
		out = append(out, zvEnc(k), v, vrt.B2I(ok))
	}
	return out
}

func zvMkTrie(pre []vrt.ConcCall) func() vrt.ConcInst {
	return func() vrt.ConcInst {
		t := New[string, int](queue.New[string]())
		for _, c := range pre {
			t.Put(zvKey(c.X, c.L), c.Y)
		}
		return zvT{t}
	}
}

func zvTPre(max int) []vrt.ConcCall {
	n := vrt.Choice(max + 1)
	var pre []vrt.ConcCall
	for i := 0; i < n; i++ {
		pre = append(pre, vrt.ConcCall{X: vrt.Int(), Y: vrt.Int(), L: vrt.Choice(2)})
	}
	return pre
}

// after the program: storing under a key makes it retrievable with that value
func zvTFollow(q vrt.ConcInst) bool {
	t := q.(zvT).t
	x, v := vrt.Int(), vrt.Int()
	k := zvKey(x, 1)
	t.Put(k, v)
	got, ok := t.Get(k)
	return vrt.And(ok, got == v, t.Contains(k), t.Size() >= 1)
}

func zvTRun(pid string, kinds []int, share, lin bool) {
	vrt.ConcShapes = 1 // pairs only, also in the thorough tier (triples over a tree exceed 25 min); thorough enlarges the pre-states instead
	vrt.ConcSelectors = 2
	pmax := vrt.Pick(1, 2)
	if pid == "C01" {
		pmax = 1
	}
	pre := zvTPre(pmax)
	prog := vrt.ConcProgram(vrt.ConcShape(), kinds)
	vrt.ConcCheck(pid, "Trie", zvMkTrie(pre), prog, nil, share, lin, zvTFollow)
}

func ZvC01_Trie() { zvTRun("C01", zvTAll, true, false) }
func ZvC02_Trie() { zvTRun("C02", zvTSingle, false, true) }
