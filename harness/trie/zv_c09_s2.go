package trie

// C09 — S2: k Puts of keys with symbolic bytes (all 256 values, lengths 1..M) and symbolic values,
// then one query, against an association list kept in the harness with naive byte-wise comparison.
// Public API only (plus the real queue.Queue[string] as the result queue).

import (
	"github.com/esimov/gogu/queue"
	vrt "github.com/esimov/gogu/zzvrt"
)

type zvRef struct {
	keys []string
	vals []int
}

func (r *zvRef) lookup(q string) (bool, int) {
	found, val := false, 0
	for i := range r.keys {
		hit := vrt.StrEq(r.keys[i], q)
		found = vrt.Or(found, hit)
		val = vrt.Ite(hit, r.vals[i], val) // later puts override earlier ones
	}
	return found, val
}

func (r *zvRef) distinct() int {
	c := 0
	for i := range r.keys {
		first := true
		for j := 0; j < i; j++ {
			first = vrt.And(first, !vrt.StrEq(r.keys[j], r.keys[i]))
		}
		c += vrt.B2I(first)
	}
	return c
}

// sorted distinct keys satisfying keep (harness-side insertion sort; forks on string order)
func (r *zvRef) sorted(keep func(string) bool) []string {
	var out []string
	for _, k := range r.keys {
		if !keep(k) {
			continue
		}
		dup := false
		for _, o := range out {
			if o == k {
				dup = true
			}
		}
		if dup {
			continue
		}
		pos := len(out)
		for i, o := range out {
			if k < o {
				pos = i
				break
			}
		}
		out = append(out[:pos], append([]string{k}, out[pos:]...)...)
	}
	return out
}

func zvHasPrefix(s, p string) bool {
	if len(p) > len(s) {
		return false
	}
	return s[:len(p)] == p
}

func zvBuild() (*Trie[string, int], *zvRef) {
	t := New[string, int](queue.New[string]())
	r := &zvRef{}
	k := 1 + vrt.Choice(vrt.Pick(2, 3))
	m := vrt.Pick(2, 3)
	for i := 0; i < k; i++ {
		key := vrt.Str(1 + vrt.Choice(m))
		val := vrt.Int()
		vrt.Assert(!vrt.Try(func() { t.Put(key, val) }), "C09/Put/no-panic")
		r.keys = append(r.keys, key)
		r.vals = append(r.vals, val)
	}
	return t, r
}

func zvDrain(q Queuer[string]) []string {
	var out []string
	for q.Size() > 0 {
		k, err := q.Dequeue()
		if err != nil {
			break
		}
		out = append(out, k)
	}
	return out
}

func zvSameKeys(got, want []string, id string) {
	vrt.Assert(len(got) == len(want), id+"/count")
	if len(got) == len(want) {
		ok := true
		for i := range got {
			ok = vrt.And(ok, vrt.StrEq(got[i], want[i]))
		}
		vrt.Assert(ok, id+"/unaltered-in-byte-lexicographic-order")
	}
}

func ZvC09_S2_GetContainsSize() {
	t, r := zvBuild()
	q := vrt.Str(vrt.Choice(vrt.Pick(3, 4) + 1)) // length 0..M+1
	var v int
	var ok, has bool
	vrt.Assert(!vrt.Try(func() { v, ok = t.Get(q); has = t.Contains(q) }), "C09/Get/no-panic")
	found, val := r.lookup(q)
	vrt.Assert(ok == found, "C09/Get/exactly-the-put-keys (no proper prefix, no extension)")
	vrt.Assert(has == found, "C09/Contains/exactly-the-put-keys")
	vrt.Assert(vrt.Implies(vrt.And(ok, found), v == val), "C09/Get/latest-value")
	vrt.Assert(t.Size() == r.distinct(), "C09/Size/number-of-distinct-keys")
	if len(q) == 0 {
		vrt.Cover("C09/Get/empty-key")
	}
}

func ZvC09_S2_Keys() {
	t, r := zvBuild()
	var q Queuer[string]
	var err error
	vrt.Assert(!vrt.Try(func() { q, err = t.Keys() }), "C09/Keys/no-panic")
	vrt.Assert(err == nil, "C09/Keys/no-error")
	zvSameKeys(zvDrain(q), r.sorted(func(string) bool { return true }), "C09/Keys/every-stored-key-once")
}

func ZvC09_S2_StartsWith() {
	t, r := zvBuild()
	p := vrt.Str(vrt.Choice(vrt.Pick(2, 3) + 1))
	var q Queuer[string]
	var err error
	vrt.Assert(!vrt.Try(func() { q, err = t.StartsWith(p) }), "C09/StartsWith/no-panic")
	if len(p) == 0 {
		vrt.Assert(err != nil, "C09/StartsWith/empty-prefix-rejected")
	} else {
		vrt.Assert(err == nil, "C09/StartsWith/no-error")
		zvSameKeys(zvDrain(q), r.sorted(func(k string) bool { return zvHasPrefix(k, p) }), "C09/StartsWith/exactly-keys-with-prefix")
	}
	// queries do not change the trie
	x := vrt.Str(1 + vrt.Choice(2))
	_, ok := t.Get(x)
	f, _ := r.lookup(x)
	vrt.Assert(ok == f, "C09/StartsWith/trie-unchanged-by-query")
}

func ZvC09_S2_LongestPrefix() {
	t, r := zvBuild()
	s := vrt.Str(vrt.Choice(vrt.Pick(3, 4) + 1))
	var got string
	var err error
	vrt.Assert(!vrt.Try(func() { got, err = t.LongestPrefix(s) }), "C09/LongestPrefix/no-panic")
	if len(s) == 0 {
		vrt.Assert(err != nil, "C09/LongestPrefix/empty-query-rejected")
		return
	}
	vrt.Assert(err == nil, "C09/LongestPrefix/no-error")
	// reference: the longest stored key that is a prefix of s ("" if none)
	best := 0
	for l := 1; l <= len(s); l++ {
		f, _ := r.lookup(s[:l])
		if f {
			best = l
		}
	}
	vrt.Assert(vrt.StrEq(got, s[:best]), "C09/LongestPrefix/longest-stored-key-that-is-a-prefix")
}

// ZvC09_S2_QueryAfterQuery: the prefix queries share one result queue. A second query must return
// exactly its own answer even when the caller has not drained the result of an earlier one
// (leftovers of an earlier Keys()/StartsWith() must never be handed out again).
func ZvC09_S2_QueryAfterQuery() {
	t, r := zvBuild()
	if vrt.Choice(2) == 0 {
		t.Keys() // result deliberately left undrained
	} else {
		t.StartsWith(vrt.Str(1))
	}
	p := vrt.Str(1 + vrt.Choice(2))
	q, err := t.StartsWith(p)
	vrt.Assert(err == nil, "C09/StartsWith/no-error")
	zvSameKeys(zvDrain(q), r.sorted(func(k string) bool { return zvHasPrefix(k, p) }), "C09/StartsWith/second-query-returns-exactly-its-own-keys")
	q2, _ := t.Keys()
	zvSameKeys(zvDrain(q2), r.sorted(func(string) bool { return true }), "C09/Keys/after-other-queries")
}
