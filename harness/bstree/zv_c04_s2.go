package bstree

// C04 — S2: bounded Upsert/Delete/Get histories from New through the public API against an
// association-list model kept as solver terms (no forks in the oracle).

import (
	vrt "github.com/esimov/gogu/zzvrt"
)

type zvEnt struct {
	k, v int
	live bool
}

func ZvC04_S2_History() {
	kind := vrt.Choice(2)
	comp := func(a, b int) bool { return a < b }
	if kind == 1 {
		comp = func(a, b int) bool { return a > b }
	}
	b := New[int, int](comp)
	var m []zvEnt
	steps := vrt.Choice(vrt.Pick(3, 5)) + 1
	for s := 0; s < steps; s++ {
		switch vrt.Choice(3) {
		case 0:
			k, v := vrt.Int(), vrt.Int()
			b.Upsert(k, v)
			any := false
			for i := range m {
				hit := vrt.And(m[i].live, m[i].k == k)
				any = vrt.Or(any, hit)
				m[i].v = vrt.Ite(hit, v, m[i].v)
			}
			m = append(m, zvEnt{k, v, !any})
		case 1:
			k := vrt.Int()
			err := b.Delete(k)
			any := false
			for i := range m {
				hit := vrt.And(m[i].live, m[i].k == k)
				any = vrt.Or(any, hit)
				m[i].live = vrt.And(m[i].live, !hit)
			}
			vrt.Assert((err == nil) == any, "C04/S2/Delete-not-found-iff-absent")
			if err != nil {
				// region of known finding C04-KF1 (size counter decremented for an absent key): decided by
				// S1; the history is not continued so the skewed counter is not re-reported.
				vrt.Cover("C04/S2/delete-absent-known-region")
				return
			}
		case 2:
			q := vrt.Int()
			it, err := b.Get(q)
			found, val := false, 0
			for i := range m {
				hit := vrt.And(m[i].live, m[i].k == q)
				found = vrt.Or(found, hit)
				val = vrt.Ite(hit, m[i].v, val)
			}
			vrt.Assert((err == nil) == found, "C04/S2/Get-found-iff-present")
			if err == nil {
				vrt.Assert(vrt.And(it.Key == q, it.Val == val), "C04/S2/Get-latest-value")
			}
		}
		sz := 0
		for i := range m {
			sz += vrt.B2I(m[i].live)
		}
		vrt.Assert(b.Size() == sz, "C04/S2/Size")
	}
	// Traverse: comparator order, each present key once with its current value
	var gk, gv []int
	b.Traverse(func(it Item[int, int]) { gk = append(gk, it.Key); gv = append(gv, it.Val) })
	ok := true
	for i := 0; i+1 < len(gk); i++ {
		ok = vrt.And(ok, comp(gk[i], gk[i+1]))
	}
	vrt.Assert(ok, "C04/S2/Traverse-ordered")
	q := vrt.Int()
	cnt := vrt.CountInt(gk, q)
	found := false
	for i := range m {
		found = vrt.Or(found, vrt.And(m[i].live, m[i].k == q))
	}
	vrt.Assert(cnt == vrt.B2I(found), "C04/S2/Traverse-each-present-key-once")
	vrt.Cover("C04/S2/end")
}

// ZvC04_LongSpine: degenerate trees beyond the shape bound — 70 keys inserted in ascending or in
// descending order (a right or a left spine of depth 70) under either comparator, symbolic values;
// Traverse must still visit every key once in comparator order and Get must find each. Keys are
// concrete here, so nothing forks: one path per (order, comparator).
func ZvC04_LongSpine() {
	const N = 70
	desc := vrt.Choice(2) == 1
	kind := vrt.Choice(2)
	comp := func(a, b int) bool { return a < b }
	if kind == 1 {
		comp = func(a, b int) bool { return a > b }
	}
	b := New[int, int](comp)
	vals := make([]int, N+1)
	for i := 1; i <= N; i++ {
		k := i
		if desc {
			k = N + 1 - i
		}
		vals[k] = vrt.Int()
		b.Upsert(k, vals[k])
	}
	vrt.Assert(b.Size() == N, "C04/long-spine/Size")
	var gk, gv []int
	vrt.Assert(!vrt.Try(func() {
		b.Traverse(func(it Item[int, int]) { gk = append(gk, it.Key); gv = append(gv, it.Val) })
	}), "C04/long-spine/Traverse-no-panic")
	vrt.Assert(len(gk) == N, "C04/long-spine/Traverse-visits-every-key")
	ok := true
	for i := range gk {
		want := i + 1
		if kind == 1 {
			want = N - i
		}
		ok = vrt.And(ok, gk[i] == want, gv[i] == vals[want])
	}
	vrt.Assert(ok, "C04/long-spine/Traverse-in-comparator-order-with-values")
	it, err := b.Get(N / 2)
	vrt.Assert(vrt.And(err == nil, it.Val == vals[N/2]), "C04/long-spine/Get")
}
