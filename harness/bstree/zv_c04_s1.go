package bstree

// C04 — S1: one real operation from an ARBITRARY binary search tree (every shape up to N nodes,
// symbolic keys constrained only by the search-tree order, symbolic values), checked against the
// ordered-map contract. Touches unexported fields (comp, root, size).

import (
	vrt "github.com/esimov/gogu/zzvrt"
)

func zvComp(kind int) func(a, b int) bool {
	if kind == 0 {
		return func(a, b int) bool { return a < b }
	}
	return func(a, b int) bool { return a > b }
}

// zvGen builds an arbitrary search tree with exactly n nodes whose keys lie strictly between lo and hi
// (nil = unbounded) in comparator order. The code sends a key LEFT when comp(key, node.Key), so the
// in-order sequence is comp-ascending.
func zvGen(n int, lo, hi *int, comp func(a, b int) bool) *Node[int, int] {
	if n == 0 {
		return nil
	}
	l := vrt.Choice(n)
	k, v := vrt.Int(), vrt.Int()
	if lo != nil {
		vrt.Assume(comp(*lo, k))
	}
	if hi != nil {
		vrt.Assume(comp(k, *hi))
	}
	nd := NewNode(k, v)
	nd.Left = zvGen(l, lo, &k, comp)
	nd.Right = zvGen(n-1-l, &k, hi, comp)
	return nd
}

func zvInorder(n *Node[int, int], keys, vals *[]int) {
	if n == nil {
		return
	}
	zvInorder(n.Left, keys, vals)
	*keys = append(*keys, n.Key)
	*vals = append(*vals, n.Val)
	zvInorder(n.Right, keys, vals)
}

// zvDrift is how far the size counter lags behind the number of nodes in the generated pre-state.
// Reachable states have counter = nodes - (number of earlier Deletes of absent keys): that
// decrement is the recorded known finding (pinned by bstree.Example), so every operation must be
// correct from such states too; each Size clause below is stated relative to the drift.
var zvDrift int

func zvTree(kind int) (*BsTree[int, int], []int, []int) {
	n := vrt.Choice(vrt.Pick(4, 6) + 1)
	comp := zvComp(kind)
	root := zvGen(n, nil, nil, comp)
	var keys, vals []int
	zvInorder(root, &keys, &vals)
	zvDrift = vrt.Int()
	vrt.Assume(vrt.And(zvDrift >= 0, zvDrift < 1<<32))
	return &BsTree[int, int]{comp: comp, root: root, size: n - zvDrift}, keys, vals
}

// lookup as terms (no forks): found, value
func zvLookup(keys, vals []int, q int) (bool, int) {
	found := false
	val := 0
	for i := range keys {
		found = vrt.Or(found, keys[i] == q)
		val = vrt.Ite(keys[i] == q, vals[i], val)
	}
	return found, val
}

func zvOrdered(keys []int, comp func(a, b int) bool) bool {
	ok := true
	for i := 0; i+1 < len(keys); i++ {
		ok = vrt.And(ok, comp(keys[i], keys[i+1]))
	}
	return ok
}

func ZvC04_S1_Get() {
	kind := vrt.Choice(2)
	b, keys, vals := zvTree(kind)
	q := vrt.Int()
	var it Item[int, int]
	var err error
	vrt.Assert(!vrt.Try(func() { it, err = b.Get(q) }), "C04/Get/no-panic")
	found, val := zvLookup(keys, vals, q)
	vrt.Assert((err == nil) == found, "C04/Get/found-iff-present")
	if err == nil {
		vrt.Assert(vrt.And(it.Key == q, it.Val == val), "C04/Get/returns-current-value")
	} else {
		vrt.Assert(vrt.And(err == ErrorNotFound, it.Key == 0, it.Val == 0), "C04/Get/not-found-error")
	}
	vrt.Assert(b.Size() == len(keys)-zvDrift, "C04/Size")
	vrt.Assert(vrt.LocksHeld() == 0, "C04/Get/lock-released")
}

func ZvC04_S1_Upsert() {
	kind := vrt.Choice(2)
	b, keys, vals := zvTree(kind)
	k, v := vrt.Int(), vrt.Int()
	vrt.Assert(!vrt.Try(func() { b.Upsert(k, v) }), "C04/Upsert/no-panic")
	var pk, pv []int
	zvInorder(b.root, &pk, &pv)
	vrt.Assert(zvOrdered(pk, b.comp), "C04/Upsert/search-tree-order")
	was, _ := zvLookup(keys, vals, k)
	vrt.Assert(len(pk) == len(keys)+vrt.B2I(!was), "C04/Upsert/node-count")
	vrt.Assert(b.Size() == len(pk)-zvDrift, "C04/Upsert/Size-is-number-of-keys")
	q := vrt.Int()
	f0, v0 := zvLookup(keys, vals, q)
	f1, v1 := zvLookup(pk, pv, q)
	vrt.Assert(f1 == vrt.Or(f0, q == k), "C04/Upsert/keys")
	vrt.Assert(vrt.Implies(f1, v1 == vrt.Ite(q == k, v, v0)), "C04/Upsert/values")
	vrt.Assert(vrt.LocksHeld() == 0, "C04/Upsert/lock-released")
	vrt.Cover("C04/Upsert/done")
}

// Known finding C04-KF1 (pinned by bstree.Example): Delete decrements the size counter even when
// the key is absent. Region: key absent; clause: Size only.
func ZvC04_S1_Delete() {
	kind := vrt.Choice(2)
	b, keys, vals := zvTree(kind)
	k := vrt.Int()
	var err error
	vrt.Assert(!vrt.Try(func() { err = b.Delete(k) }), "C04/Delete/no-panic")
	var pk, pv []int
	zvInorder(b.root, &pk, &pv)
	was, _ := zvLookup(keys, vals, k)
	vrt.Assert((err != nil) == !was, "C04/Delete/not-found-iff-absent")
	if err != nil {
		vrt.Assert(err == ErrorNotFound, "C04/Delete/error-value")
	}
	vrt.Assert(zvOrdered(pk, b.comp), "C04/Delete/search-tree-order")
	vrt.Assert(len(pk) == len(keys)-vrt.B2I(was), "C04/Delete/node-count")
	q := vrt.Int()
	f0, v0 := zvLookup(keys, vals, q)
	f1, v1 := zvLookup(pk, pv, q)
	vrt.Assert(f1 == vrt.And(f0, q != k), "C04/Delete/removes-only-that-key")
	vrt.Assert(vrt.Implies(f1, v1 == v0), "C04/Delete/other-values-unchanged")
	vrt.Assert(vrt.LocksHeld() == 0, "C04/Delete/lock-released")
	if len(keys) >= 3 {
		vrt.Cover("C04/Delete/three-or-more-nodes")
	}
	vrt.AssertUnless(!was, b.Size() == len(pk)-zvDrift, "C04/Delete/Size-is-number-of-keys")
}

func ZvC04_S1_Traverse() {
	kind := vrt.Choice(2)
	b, keys, vals := zvTree(kind)
	var gk, gv []int
	vrt.Assert(!vrt.Try(func() {
		b.Traverse(func(it Item[int, int]) { gk = append(gk, it.Key); gv = append(gv, it.Val) })
	}), "C04/Traverse/no-panic")
	vrt.Assert(vrt.And(vrt.SeqEqInt(gk, keys), vrt.SeqEqInt(gv, vals)), "C04/Traverse/each-key-once-in-comparator-order-with-value")
	vrt.Assert(vrt.LocksHeld() == 0, "C04/Traverse/lock-released")
	vrt.Cover("C04/Traverse/done")
}

// ZvC04_S1_TwoSteps: TWO mutators in a row from an arbitrary search tree, then a full observation
// through the public API (Traverse + Get of a probe). One inductive step cannot see state that an
// operation leaves behind outside the abstract value — e.g. bookkeeping a later operation trusts —
// so this runs every pair Upsert/Delete x Upsert/Delete with symbolic keys from every small shape.
// (Size is left to the one-step harnesses, where the recorded counter drift is accounted for.)
func ZvC04_S1_TwoSteps() {
	kind := vrt.Choice(vrt.Pick(1, 2))
	n := vrt.Choice(vrt.Pick(2, 3) + 1)
	comp := zvComp(kind)
	root := zvGen(n, nil, nil, comp)
	var keys, vals []int
	zvInorder(root, &keys, &vals)
	b := &BsTree[int, int]{comp: comp, root: root, size: n}
	m := make([]zvEnt, len(keys))
	for i := range keys {
		m[i] = zvEnt{keys[i], vals[i], true}
	}
	for s := 0; s < 2; s++ {
		if vrt.Choice(2) == 0 {
			k, v := vrt.Int(), vrt.Int()
			vrt.Assert(!vrt.Try(func() { b.Upsert(k, v) }), "C04/TwoSteps/no-panic")
			any := false
			for i := range m {
				hit := vrt.And(m[i].live, m[i].k == k)
				any = vrt.Or(any, hit)
				m[i].v = vrt.Ite(hit, v, m[i].v)
			}
			m = append(m, zvEnt{k, v, !any})
		} else {
			k := vrt.Int()
			var err error
			vrt.Assert(!vrt.Try(func() { err = b.Delete(k) }), "C04/TwoSteps/no-panic")
			any := false
			for i := range m {
				hit := vrt.And(m[i].live, m[i].k == k)
				any = vrt.Or(any, hit)
				m[i].live = vrt.And(m[i].live, !hit)
			}
			vrt.Assert((err == nil) == any, "C04/TwoSteps/Delete-not-found-iff-absent")
		}
	}
	var gk, gv []int
	vrt.Assert(!vrt.Try(func() {
		b.Traverse(func(it Item[int, int]) { gk = append(gk, it.Key); gv = append(gv, it.Val) })
	}), "C04/TwoSteps/no-panic")
	vrt.Assert(zvOrdered(gk, comp), "C04/TwoSteps/Traverse-in-comparator-order-without-repeats")
	q := vrt.Int()
	found, val := false, 0
	for i := range m {
		hit := vrt.And(m[i].live, m[i].k == q)
		found = vrt.Or(found, hit)
		val = vrt.Ite(hit, m[i].v, val)
	}
	tf, tv := zvLookup(gk, gv, q)
	vrt.Assert(vrt.And(tf == found, vrt.Implies(found, tv == val)), "C04/TwoSteps/Traverse-yields-exactly-the-present-keys-with-current-values")
	it, err := b.Get(q)
	vrt.Assert(vrt.And((err == nil) == found, vrt.Implies(found, it.Val == val)), "C04/TwoSteps/Get-agrees")
	vrt.Cover("C04/TwoSteps/end")
}
