package bstree

// C01 / C02 — concurrent programs over BsTree[int,int] through the public API only (driver:
// zzvrt.ConcCheck). Traverse runs its producer goroutine and channel inside the engine's scheduler.

import (
	vrt "github.com/esimov/gogu/zzvrt"
)

const (
	zbUpsert = iota
	zbGet
	zbDelete
	zbSize
	zbTraverse
)

var zvBNames = [...]string{"Upsert", "Get", "Delete", "Size", "Traverse"}
var zvBAll = []int{zbUpsert, zbGet, zbDelete, zbSize, zbTraverse}
var zvBSingle = []int{zbUpsert, zbGet, zbDelete, zbSize}

func zvBLess(a, b int) bool { return a < b }

type zvB struct{ t *BsTree[int, int] }

func (z zvB) Apply(c vrt.ConcCall) (r vrt.ConcRes) {
	vrt.Note(zvBNames[c.K])
	r.Pan = vrt.Try(func() {
		switch c.K {
		case zbUpsert:
			z.t.Upsert(c.X, c.Y)
		case zbGet:
			it, err := z.t.Get(c.X)
			r.V, r.OK = it.Val, err == nil
		case zbDelete:
			r.OK = z.t.Delete(c.X) == nil
		case zbSize:
			r.V = z.t.Size()
		case zbTraverse:
			z.t.Traverse(func(it Item[int, int]) { r.V += it.Key + it.Val })
		}
	})
	return
}

func (z zvB) Observe(keys []int) []int {
	out := []int{z.t.Size()}
	for _, k := range keys {
		it, err := z.t.Get(k)
		out = append(out, vrt.B2I(err == nil), it.Val)
	}
	return out
}

func zvMkTree(ks, vs []int) func() vrt.ConcInst {
	return func() vrt.ConcInst {
		t := New[int, int](zvBLess)
		for i := range ks {
			t.Upsert(ks[i], vs[i])
		}
		return zvB{t}
	}
}

// zvPre: 0..3 stored keys. Quick tier: every shape up to 2 nodes plus the balanced 3-node tree
// (root with two children: the successor-splice case of Delete); thorough: every 3-node shape.
// zvC01: the race/panic/deadlock harness keeps the quick pre-states in both tiers (its thorough
// run over every 3-node shape takes a quarter of an hour for no new method pairs).
var zvC01 bool

func zvPre() (ks, vs []int) {
	n := vrt.Choice(4)
	for i := 0; i < n; i++ {
		ks = append(ks, vrt.Int())
		vs = append(vs, vrt.Int())
	}
	if n == 3 && (vrt.Tier() == 0 || zvC01) {
		vrt.Assume(vrt.And(ks[1] < ks[0], ks[0] < ks[2]))
	}
	return
}

// after the program: a fresh key can be stored, found and removed
func zvBFollow(q vrt.ConcInst) bool {
	t := q.(zvB).t
	k, v := vrt.Int(), vrt.Int()
	t.Upsert(k, v)
	it, err := t.Get(k)
	derr := t.Delete(k)
	_, err2 := t.Get(k)
	return vrt.And(err == nil, it.Val == v, derr == nil, err2 != nil)
}

func zvBRun(pid string, kinds []int, share, lin bool) {
	vrt.ConcShapes = 1 // pairs only, also in the thorough tier (triples over a tree exceed 25 min); thorough enlarges the pre-states instead
	zvC01 = pid == "C01"
	ks, vs := zvPre()
	prog := vrt.ConcProgram(vrt.ConcShape(), kinds)
	vrt.ConcCheck(pid, "BsTree", zvMkTree(ks, vs), prog, vrt.ConcKeys(ks, prog), share, lin, zvBFollow)
}

func ZvC01_BsTree() { zvBRun("C01", zvBAll, true, false) }
func ZvC02_BsTree() { zvBRun("C02", zvBSingle, false, true) }
