package gogu

// C13 — search, selection, aggregate and numeric helpers against their definitions. Slices have a
// concrete length per path (all lengths up to the bound) and symbolic 64-bit elements; predicates
// and key functions are uninterpreted, so one query family covers every pure callback.

import (
	"math"

	vrt "github.com/esimov/gogu/zzvrt"
)

func zvN13() int { return zvLen(vrt.Pick(5, 6)) }

func ZvC13_IndexOf() {
	n := zvN13()
	s := zvInts(n)
	v := vrt.Int()
	var r, l int
	vrt.Assert(!vrt.Try(func() { r = IndexOf(s, v); l = LastIndexOf(s, v) }), "C13/IndexOf/no-panic")
	none := true
	for i := 0; i < n; i++ {
		none = vrt.And(none, s[i] != v)
	}
	if r == -1 {
		vrt.Assert(none, "C13/IndexOf/-1-only-if-absent")
	} else {
		vrt.Assert(vrt.And(r >= 0, r < n), "C13/IndexOf/in-range")
		ok := s[r] == v
		for j := 0; j < r; j++ {
			ok = vrt.And(ok, s[j] != v)
		}
		vrt.Assert(ok, "C13/IndexOf/smallest-matching-index")
	}
	if l == -1 {
		vrt.Assert(none, "C13/LastIndexOf/-1-only-if-absent")
	} else {
		vrt.Assert(vrt.And(l >= 0, l < n), "C13/LastIndexOf/in-range")
		ok := s[l] == v
		for j := l + 1; j < n; j++ {
			ok = vrt.And(ok, s[j] != v)
		}
		vrt.Assert(ok, "C13/LastIndexOf/largest-matching-index")
	}
	vrt.Assert(Contains(s, v) == !none, "C13/Contains")
}

func ZvC13_FindIndex() {
	n := zvN13()
	s := zvInts(n)
	var r, l int
	vrt.Assert(!vrt.Try(func() { r = FindIndex(s, zvPred); l = FindLastIndex(s, zvPred) }), "C13/FindIndex/no-panic")
	none := true
	all := true
	for i := 0; i < n; i++ {
		none = vrt.And(none, !zvPred(s[i]))
		all = vrt.And(all, zvPred(s[i]))
	}
	if r == -1 {
		vrt.Assert(none, "C13/FindIndex/-1-only-if-none")
	} else {
		vrt.Assert(vrt.And(r >= 0, r < n), "C13/FindIndex/in-range")
		ok := zvPred(s[r])
		for j := 0; j < r; j++ {
			ok = vrt.And(ok, !zvPred(s[j]))
		}
		vrt.Assert(ok, "C13/FindIndex/smallest")
	}
	if l == -1 {
		vrt.Assert(none, "C13/FindLastIndex/-1-only-if-none")
	} else {
		vrt.Assert(vrt.And(l >= 0, l < n), "C13/FindLastIndex/in-range")
		ok := zvPred(s[l])
		for j := l + 1; j < n; j++ {
			ok = vrt.And(ok, !zvPred(s[j]))
		}
		vrt.Assert(ok, "C13/FindLastIndex/largest")
	}
	vrt.Assert(Some(s, zvPred) == !none, "C13/Some")
	vrt.Assert(Every(s, zvPred) == all, "C13/Every")
}

func ZvC13_FindAll() {
	n := zvLen(vrt.Pick(4, 5))
	s := zvInts(n)
	var m map[int]int
	vrt.Assert(!vrt.Try(func() { m = FindAll(s, zvPred) }), "C13/FindAll/no-panic")
	cnt := 0
	for i := 0; i < n; i++ {
		v, ok := m[i]
		vrt.Assert(ok == zvPred(s[i]), "C13/FindAll/index-present-iff-matches")
		if ok {
			vrt.Assert(v == s[i], "C13/FindAll/value-is-element")
		}
		cnt += vrt.B2I(zvPred(s[i]))
	}
	vrt.Assert(len(m) == cnt, "C13/FindAll/no-other-entries")
}

func zvExtremal(s []int, r int, max bool, id string) {
	if len(s) == 0 {
		vrt.Assert(r == 0, id+"/empty-zero")
		return
	}
	ok := vrt.CountInt(s, r) >= 1
	for i := range s {
		if max {
			ok = vrt.And(ok, s[i] <= r)
		} else {
			ok = vrt.And(ok, s[i] >= r)
		}
	}
	vrt.Assert(ok, id+"/extremal-element")
}

func ZvC13_MinMax() {
	n := zvN13()
	s := zvInts(n)
	var mn, mx int
	vrt.Assert(!vrt.Try(func() { mn = FindMin(s); mx = FindMax(s) }), "C13/FindMin/no-panic")
	zvExtremal(s, mn, false, "C13/FindMin")
	zvExtremal(s, mx, true, "C13/FindMax")
	if n > 0 {
		zvExtremal(s, Min(s...), false, "C13/Min")
		zvExtremal(s, Max(s...), true, "C13/Max")
	}
}

// By-key variants: the result is an element whose key is extremal, and the FIRST such element.
func ZvC13_MinMaxBy() {
	n := zvN13()
	s := zvInts(n)
	var mn, mx int
	vrt.Assert(!vrt.Try(func() { mn = FindMinBy(s, zvFn); mx = FindMaxBy(s, zvFn) }), "C13/FindMinBy/no-panic")
	if n == 0 {
		vrt.Assert(vrt.And(mn == 0, mx == 0), "C13/FindMinBy/empty-zero")
		return
	}
	check := func(r int, max bool, id string) {
		// r = s[j] for the first j whose key is extremal
		found := false
		for j := 0; j < n; j++ {
			isFirst := s[j] == r
			for i := 0; i < n; i++ {
				if max {
					isFirst = vrt.And(isFirst, zvFn(s[i]) <= zvFn(s[j]))
				} else {
					isFirst = vrt.And(isFirst, zvFn(s[i]) >= zvFn(s[j]))
				}
				if i < j {
					isFirst = vrt.And(isFirst, zvFn(s[i]) != zvFn(s[j]))
				}
			}
			found = vrt.Or(found, isFirst)
		}
		vrt.Assert(found, id)
	}
	check(mn, false, "C13/FindMinBy/first-element-with-minimal-key")
	check(mx, true, "C13/FindMaxBy/first-element-with-maximal-key")
}

// ByKey on a slice of maps: value under `key` that is extremal among the maps holding the key;
// an error (never a panic) when the first map lacks the key or the slice is empty.
func ZvC13_MinMaxByKey() {
	n := zvLen(vrt.Pick(3, 4))
	ms := make([]map[string]int, n)
	vals := make([]int, n)
	has := make([]bool, n)
	for i := range ms {
		ms[i] = map[string]int{"other": vrt.Int()}
		has[i] = vrt.Choice(2) == 1
		if has[i] {
			vals[i] = vrt.Int()
			ms[i]["k"] = vals[i]
		}
	}
	var mn, mx int
	var e1, e2 error
	vrt.Assert(!vrt.Try(func() { mn, e1 = FindMinByKey(ms, "k"); mx, e2 = FindMaxByKey(ms, "k") }), "C13/FindMinByKey/no-panic")
	if n == 0 {
		// empty slice: the zero value (whether an error accompanies it is not specified)
		vrt.Assert(vrt.And(mn == 0, mx == 0), "C13/FindMinByKey/empty-zero")
		return
	}
	if !has[0] {
		vrt.Assert(vrt.And(e1 != nil, e2 != nil), "C13/FindMinByKey/error-when-key-missing")
		return
	}
	vrt.Assert(vrt.And(e1 == nil, e2 == nil), "C13/FindMinByKey/no-error")
	okMin, okMax := true, true
	inMin, inMax := false, false
	for i := 0; i < n; i++ {
		if has[i] {
			okMin = vrt.And(okMin, vals[i] >= mn)
			okMax = vrt.And(okMax, vals[i] <= mx)
			inMin = vrt.Or(inMin, vals[i] == mn)
			inMax = vrt.Or(inMax, vals[i] == mx)
		}
	}
	vrt.Assert(vrt.And(okMin, inMin), "C13/FindMinByKey/extremal")
	vrt.Assert(vrt.And(okMax, inMax), "C13/FindMaxByKey/extremal")
}

// Nth over the WHOLE int range of the index.
func ZvC13_Nth() {
	n := zvN13()
	s := zvInts(n)
	i := vrt.Int()
	var r int
	var err error
	vrt.Assert(!vrt.Try(func() { r, err = Nth(s, i) }), "C13/Nth/never-panics")
	inPos := vrt.And(i >= 0, i < n)
	inNeg := vrt.And(i < 0, i >= -n)
	vrt.Assert((err == nil) == vrt.Or(inPos, inNeg), "C13/Nth/error-iff-out-of-bounds")
	if err == nil {
		ok := false
		for j := 0; j < n; j++ {
			ok = vrt.Or(ok, vrt.And(vrt.Or(i == j, i == j-n), r == s[j]))
		}
		vrt.Assert(ok, "C13/Nth/selects-element")
	}
}

func ZvC13_Sum() {
	n := zvN13()
	s := zvInts(n)
	want := 0
	wantBy := 0
	for _, x := range s {
		want += x
		wantBy += zvFn(x)
	}
	vrt.Assert(Sum(s) == want, "C13/Sum")
	vrt.Assert(SumBy(s, zvFn) == wantBy, "C13/SumBy")
	if n > 0 {
		vrt.Assert(Mean(s) == want/n, "C13/Mean")
	}
}

func ZvC13_SumFloat() {
	n := zvLen(3)
	s := make([]float64, n)
	want := 0.0
	for i := range s {
		s[i] = vrt.Float64()
		vrt.Assume(s[i] == s[i]) // no NaN
		want += s[i]
	}
	got := Sum(s)
	vrt.Assert(vrt.Or(got == want, vrt.And(got != got, want != want)), "C13/Sum/float64")
	if n > 0 {
		m, w := Mean(s), want/float64(n)
		vrt.Assert(vrt.Or(m == w, vrt.And(m != m, w != w)), "C13/Mean/float64")
	}
}

func ZvC13_Numeric() {
	x, lo, hi := vrt.Int(), vrt.Int(), vrt.Int()
	a := Abs(x)
	vrt.Assert(vrt.Implies(x != math.MinInt, vrt.And(a >= 0, vrt.Or(a == x, a == -x))), "C13/Abs")
	c := Clamp(x, lo, hi)
	vrt.Assert(vrt.Implies(lo <= hi, vrt.And(c >= lo, c <= hi, vrt.Implies(vrt.And(x >= lo, x <= hi), c == x),
		vrt.Implies(x < lo, c == lo), vrt.Implies(x > hi, c == hi))), "C13/Clamp")
	vrt.Assert(InRange(x, lo, hi) == vrt.And(x >= lo, x <= hi), "C13/InRange")
}

// int8: the same inequalities at a narrow width (wrap-around at -128)
func ZvC13_NumericInt8() {
	x8, lo8, hi8 := vrt.Int8(), vrt.Int8(), vrt.Int8()
	a8 := Abs(x8)
	vrt.Assert(vrt.Implies(x8 != math.MinInt8, vrt.And(a8 >= 0, vrt.Or(a8 == x8, a8 == -x8))), "C13/Abs/int8")
	c8 := Clamp(x8, lo8, hi8)
	vrt.Assert(vrt.Implies(lo8 <= hi8, vrt.And(c8 >= lo8, c8 <= hi8, vrt.Implies(vrt.And(x8 >= lo8, x8 <= hi8), c8 == x8))), "C13/Clamp/int8")
	vrt.Assert(InRange(x8, lo8, hi8) == vrt.And(x8 >= lo8, x8 <= hi8), "C13/InRange/int8")
}

// float64 (no NaN)
func ZvC13_NumericFloat() {
	f, fl, fh := vrt.Float64(), vrt.Float64(), vrt.Float64()
	vrt.Assume(vrt.And(f == f, fl == fl, fh == fh))
	cf := Clamp(f, fl, fh)
	vrt.Assert(vrt.Implies(fl <= fh, vrt.And(cf >= fl, cf <= fh, vrt.Implies(vrt.And(f >= fl, f <= fh), cf == f))), "C13/Clamp/float64")
	vrt.Assert(InRange(f, fl, fh) == vrt.And(f >= fl, f <= fh), "C13/InRange/float64")
	af := Abs(f)
	vrt.Assert(vrt.And(af >= 0, vrt.Or(af == f, af == -f)), "C13/Abs/float64")
}

func ZvC13_Compare() {
	a, b := vrt.Int(), vrt.Int()
	vrt.Assert(Equal(a, b) == (a == b), "C13/Equal")
	vrt.Assert(Less(a, b) == (a < b), "C13/Less")
	lt := func(x, y int) bool { return x < y }
	c := Compare(a, b, lt)
	vrt.Assert(vrt.And((c == 1) == (a < b), (c == -1) == (b < a), (c == 0) == (a == b)), "C13/Compare/lt")
	rel := func(x, y int) bool { return vrt.RelInt(x, y) }
	c2 := Compare(a, b, rel)
	vrt.Assert(vrt.And((c2 == 1) == rel(a, b), (c2 == -1) == vrt.And(!rel(a, b), rel(b, a)), (c2 == 0) == vrt.And(!rel(a, b), !rel(b, a))), "C13/Compare/any-order")
	bd := Bound[int]{Min: 0, Max: vrt.Int()}
	vrt.Assume(bd.Max >= 0)
	x := vrt.Int()
	vrt.Assume(x != math.MinInt)
	vrt.Assert(bd.Enclose(x) == vrt.And(Abs(x) >= 0, Abs(x) <= bd.Max), "C13/Bound.Enclose")
}

// Range: (start, step, end) symbolic in a window; result length bounded by the harness.
func zvRangeRef(start, step, end int, got []int, id string) {
	// definition: ascending when end > 0 (i = start; i < end; i += step), else descending by |step|
	// (i = start; i > end; i -= |step|). The result is the MAXIMAL such progression.
	n := len(got)
	ok := true
	for k := 0; k < n; k++ {
		want := vrt.Ite(end > 0, start+k*step, start-k*Abs(step))
		ok = vrt.And(ok, got[k] == want, vrt.Ite(end > 0, vrt.B2I(want < end), vrt.B2I(want > end)) == 1)
	}
	next := vrt.Ite(end > 0, start+n*step, start-n*Abs(step))
	ok = vrt.And(ok, vrt.Ite(end > 0, vrt.B2I(next >= end), vrt.B2I(next <= end)) == 1)
	vrt.Assert(ok, id)
}

func ZvC13_Range3() {
	maxLen := vrt.Pick(6, 10)
	start, step, end := vrt.Int(), vrt.Int(), vrt.Int()
	w := 1 << 20
	vrt.Assume(vrt.And(start > -w, start < w, step > -w, step < w, end > -w, end < w))
	// keep the result within the bound: |end-start| <= maxLen*|step| when progressing
	as := Abs(step)
	vrt.Assume(vrt.Or(step == 0, vrt.And(end-start <= maxLen*as, start-end <= maxLen*as)))
	// a positive end with a negative step never terminates (the loop variable walks away from end):
	// outside the claim (DESIGN §5), as is wrap-around.
	vrt.Assume(vrt.Not(vrt.And(end > 0, step < 0)))
	var r, rr []int
	var err, err2 error
	vrt.Assert(!vrt.Try(func() { r, err = Range(start, step, end) }), "C13/Range/no-panic")
	invalid := vrt.Or(vrt.And(start > end, end > 0), step == 0, vrt.And(step < 0, end > start))
	vrt.Assert((err != nil) == invalid, "C13/Range/error-iff-invalid-arguments")
	if err != nil {
		vrt.Cover("C13/Range/error")
		return
	}
	zvRangeRef(start, step, end, r, "C13/Range/maximal-progression")
	pre := zvCopy(r)
	vrt.Assert(!vrt.Try(func() { rr, err2 = RangeRight(start, step, end) }), "C13/RangeRight/no-panic")
	vrt.Assert(vrt.And(err2 == nil, len(rr) == len(pre)), "C13/RangeRight/same-length")
	ok := true
	for i := range rr {
		ok = vrt.And(ok, rr[i] == pre[len(pre)-1-i])
	}
	vrt.Assert(ok, "C13/RangeRight/is-reverse")
	if len(r) > 0 {
		vrt.Cover("C13/Range/nonempty")
	}
}

func ZvC13_Range12() {
	maxLen := vrt.Pick(6, 10)
	start, end := vrt.Int(), vrt.Int()
	vrt.Assume(vrt.And(start > -100, start < 100, end > -100, end < 100))
	vrt.Assume(vrt.And(end-start <= maxLen, start-end <= maxLen))
	r1, e1 := Range(end)
	vrt.Assert(e1 == nil, "C13/Range1/no-error")
	if end >= -maxLen && end <= maxLen {
		zvRangeRef(0, 1, end, r1, "C13/Range1/progression")
	}
	r2, e2 := Range(start, end)
	vrt.Assert(e2 == nil, "C13/Range2/no-error")
	zvRangeRef(start, 1, end, r2, "C13/Range2/progression")
	_, e4 := Range(1, 2, 3, 4)
	vrt.Assert(e4 != nil, "C13/Range/too-many-arguments")
}
