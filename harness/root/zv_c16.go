package gogu

// C16 — helpers do not disturb their arguments or each other's results.
// Every slice argument is a window s = back[1:1+n] of a backing array with a leading sentinel and
// two spare-capacity sentinels (all symbolic). Obligations per helper:
//   F1  the whole backing array (elements AND sentinels) is unchanged afterwards — for the
//       documented in-place helpers (Reverse, Reject, Omit, OmitBy) only the sentinels / other
//       arguments must be unchanged;
//   F2  the returned slice/map is fresh (does not share storage with any argument), except for the
//       view helpers Drop and Chunk and the in-place ones.
// F1 and F2 for every helper imply the pairwise statement (a later call can only write fresh memory
// or its own in-place argument); a few explicit two-call harnesses are kept as witnesses.

import (
	vrt "github.com/esimov/gogu/zzvrt"
)

type zvWin struct {
	back, pre, s []int
}

func zvWindow(n int) *zvWin {
	back := zvInts(n + 3)
	return &zvWin{back: back, pre: zvCopy(back), s: back[1 : 1+n]}
}

func (w *zvWin) intact() bool { return vrt.SeqEqInt(w.back, w.pre) }

// sentinels only (for in-place helpers)
func (w *zvWin) sentinelsIntact() bool {
	n := len(w.back)
	return vrt.And(w.back[0] == w.pre[0], w.back[n-1] == w.pre[n-1], w.back[n-2] == w.pre[n-2])
}

const zvSliceHelpers = 27

func ZvC16_SliceHelpers() {
	n := zvLen(vrt.Pick(3, 4))
	a, b := zvWindow(n), zvWindow(zvLen(2))
	var res []int
	fresh := true // F2 applies
	inPlace := false
	which := vrt.Choice(zvSliceHelpers)
	panicked := vrt.Try(func() {
		switch which {
		case 0:
			res = Map(a.s, zvFn)
		case 1:
			res = Unique(a.s)
		case 2:
			res = UniqueBy(a.s, zvFn)
		case 3:
			p := Partition(a.s, zvPred)
			res = p[0]
			vrt.Assert(vrt.And(!vrt.SameArray(p[1], a.back), !vrt.SameArray(p[1], p[0]) || len(p[1]) == 0 || len(p[0]) == 0), "C16/Partition/parts-fresh")
		case 4:
			res = Duplicate(a.s)
		case 5:
			res = Merge(a.s, b.s)
		case 6:
			res = Intersection(a.s, b.s)
		case 7:
			res = IntersectionBy(zvFn, a.s, b.s)
		case 8:
			res = Without[int, int](a.s, b.s...)
		case 9:
			res = Difference(a.s, b.s)
		case 10:
			res = DifferenceBy(a.s, b.s, zvFn)
		case 11:
			res = DropWhile(a.s, zvPred)
		case 12:
			res = DropRightWhile(a.s, zvPred)
		case 13:
			res = ToSlice(a.s...)
		case 14:
			res = Filter(a.s, zvPred)
		case 15:
			res = Shuffle(a.s)
		case 16:
			res, _ = Flatten[int]([]any{a.s, b.s})
		case 17:
			res, _ = Union[int]([]any{a.s, b.s})
		case 18:
			res = Drop(a.s, vrt.Int())
			fresh = false // documented view of the argument
		case 19:
			c := Chunk(a.s, 1+vrt.Choice(2))
			fresh = false
			if len(c) > 0 {
				res = c[0]
			}
		case 20:
			res = Reverse(a.s)
			fresh, inPlace = false, true
		case 21:
			res = Reject(a.s, zvPred)
			fresh, inPlace = false, true
		case 22:
			// observers returning scalars / maps (one per path)
			switch vrt.Choice(12) {
			case 0:
				_ = Sum(a.s) + SumBy(a.s, zvFn)
			case 1:
				_ = IndexOf(a.s, 1) + LastIndexOf(a.s, 1)
			case 2:
				_ = FindIndex(a.s, zvPred) + FindLastIndex(a.s, zvPred)
			case 3:
				_ = FindMin(a.s) + FindMax(a.s)
			case 4:
				_ = FindMinBy(a.s, zvFn) + FindMaxBy(a.s, zvFn)
			case 5:
				_, _ = Nth(a.s, vrt.Int())
			case 6:
				_ = Every(a.s, zvPred)
			case 7:
				_ = Some(a.s, zvPred)
			case 8:
				_ = Contains(a.s, 3)
			case 9:
				_ = FindAll(a.s, zvPred)
			case 10:
				_ = DuplicateWithIndex(a.s)
			case 11:
				ForEach(a.s, func(int) {})
				ForEachRight(a.s, func(int) {})
				_ = Reduce(a.s, func(x, acc int) int { return acc }, 0)
			}
		case 23:
			_ = Mean(append(zvCopy(a.s), 1))
		case 24:
			g := GroupBy(a.s, zvFn)
			vrt.MapOrderMode(2)
			for _, grp := range g {
				vrt.Assert(!vrt.SameArray(grp, a.back), "C16/GroupBy/groups-fresh")
			}
		case 25:
			if n == 2 {
				z := Zip(a.s, b.s[:len(b.s)])
				_ = z
			}
		case 26:
			m := SliceToMap(a.s, zvCopy(a.s))
			m[1] = 1
		}
	})
	if panicked {
		// documented panics only (Zip on a non-square matrix): arguments must still be intact
		vrt.Assert(which == 25, "C16/unexpected-panic")
	}
	if inPlace {
		vrt.Assert(vrt.And(a.sentinelsIntact(), b.intact()), "C16/in-place-helper-touches-only-its-argument")
		return
	}
	vrt.Assert(vrt.And(a.intact(), b.intact()), "C16/F1/arguments-and-spare-capacity-unchanged")
	if fresh {
		vrt.Assert(vrt.And(!vrt.SameArray(res, a.back), !vrt.SameArray(res, b.back)), "C16/F2/result-does-not-share-storage-with-arguments")
	}
}

// Two calls sharing an argument: the first result is never altered by the second call.
func ZvC16_Pairs() {
	a, b, c := zvWindow(zvLen(2)), zvWindow(zvLen(2)), zvWindow(zvLen(2))
	switch vrt.Choice(4) {
	case 0:
		r1 := Merge(a.s, b.s)
		k1 := zvCopy(r1)
		r2 := Merge(a.s, c.s)
		vrt.Assert(vrt.SeqEqInt(r1, k1), "C16/pair/Merge;Merge-first-result-unaltered")
		vrt.Assert(vrt.SeqEqInt(r2, append(zvCopy(a.pre[1:1+len(a.s)]), c.s...)), "C16/pair/Merge;Merge-second-result-correct")
	case 1:
		r1 := Drop(a.s, 1)
		k1 := zvCopy(r1)
		_ = Map(a.s, zvFn)
		_ = Filter(a.s, zvPred)
		_ = Unique(a.s)
		vrt.Assert(vrt.SeqEqInt(r1, k1), "C16/pair/Drop;Map-view-unaltered-by-non-in-place-helpers")
	case 2:
		r1 := Filter(a.s, zvPred)
		k1 := zvCopy(r1)
		_ = Reverse(a.s) // in place on a, must not reach r1
		_ = Reject(a.s, zvPred)
		vrt.Assert(vrt.SeqEqInt(r1, k1), "C16/pair/Filter;Reverse-result-not-aliased-to-argument")
	case 3:
		r1 := Without[int, int](a.s, b.s...)
		k1 := zvCopy(r1)
		r2 := Difference(a.s, c.s)
		_ = append(r2, 7, 8, 9)
		vrt.Assert(vrt.SeqEqInt(r1, k1), "C16/pair/Without;Difference")
	}
	vrt.Assert(vrt.And(b.intact(), c.intact()), "C16/pair/other-arguments-unchanged")
}

const zvMapHelpers = 16

func ZvC16_MapHelpers() {
	m, ks, vs := zvMap(zvLen(vrt.Pick(2, 3)))
	var res map[int]int
	inPlace := false
	hasRes := true
	// key list handed over by spreading a caller-owned slice (a window with sentinels): symbolic
	// keys, so the solver decides which of them are present in the map
	kw := zvWindow(2)
	which := vrt.Choice(zvMapHelpers)
	vrt.Assert(!vrt.Try(func() {
		switch which {
		case 0:
			res = MapValues(m, zvFn)
		case 1:
			res = MapKeys(m, func(k, v int) int { return vrt.Fn2Int(k, v) })
		case 2:
			res = MapUnique(m)
		case 3:
			res = Find(m, zvPred)
		case 4:
			res = FindByKey(m, zvPred)
		case 5:
			res = Invert(m)
		case 6:
			res, _ = Pick(m, kw.s...)
		case 7:
			res = PickBy(m, func(k, v int) bool { return vrt.Pred2Int(k, v) })
		case 8:
			res = FilterMap(m, zvPred)
		case 9:
			res = Omit(m, kw.s...)
			inPlace = true
		case 10:
			res = OmitBy(m, func(k, v int) bool { return vrt.Pred2Int(k, v) })
			inPlace = true
		case 11:
			_ = Keys(m)
			_ = Values(m)
			hasRes = false
		case 12:
			_ = MapEvery(m, zvPred) || MapSome(m, zvPred) || MapContains(m, 1)
			_ = MapCollection(m, zvFn)
			_ = FindKey(m, zvPred)
			hasRes = false
		case 13:
			_ = Pluck([]map[int]int{m}, 1)
			_ = FilterMapCollection([]map[int]int{m}, zvPred)
			hasRes = false
		case 14:
			_ = PartitionMap([]map[int]int{m}, func(x map[int]int) bool { return zvPred(len(x)) })
			hasRes = false
		case 15:
			_, _ = FindMinByKey([]map[int]int{m}, 1)
			_, _ = FindMaxByKey([]map[int]int{m}, 1)
			hasRes = false
		}
	}), "C16/map-helper/no-panic")
	vrt.Assert(kw.intact(), "C16/F1/spread-key-list-unchanged")
	if inPlace {
		vrt.Assert(true, "C16/map/in-place")
		return
	}
	zvSameMap(m, ks, vs, zvAll(len(ks), true), "C16/F1/map-argument-unchanged")
	if hasRes {
		// F2: the result is a different map: a write to it is not visible through the argument
		probe := vrt.Int()
		for _, k := range ks {
			vrt.Assume(probe != k)
		}
		res[probe] = 1
		_, leaked := m[probe]
		vrt.Assert(!leaked, "C16/F2/result-map-is-fresh")
	}
}
