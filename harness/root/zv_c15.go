package gogu

// C15 — string helpers. Strings have a concrete length per path (all lengths up to S) and symbolic
// bytes; offsets, lengths, indices and sizes range over the whole int type.
// CamelCase/SnakeCase/KebabCase run Go's regexp engine and are OUTSIDE this check (DESIGN §5).

import (
	"unicode"

	vrt "github.com/esimov/gogu/zzvrt"
)

func zvS() int { return zvLen(vrt.Pick(4, 6)) }

// zvSubstrRef: the documented PHP-style rules, computed without overflow.
func zvSubstrRef(s string, offset, length int) string {
	n := len(s)
	if offset < 0 {
		if offset < -n {
			return ""
		}
		offset = n + offset
	}
	if offset > n {
		return ""
	}
	end := 0
	if length < 0 {
		if length < -n {
			return ""
		}
		end = n + length
		if end < offset {
			return ""
		}
	} else if length > n-offset {
		end = n
	} else {
		end = offset + length
	}
	return s[offset:end]
}

func ZvC15_Substr() {
	s := vrt.Str(zvS())
	off, ln := vrt.Int(), vrt.Int()
	var r string
	vrt.Assert(!vrt.Try(func() { r = Substr(s, off, ln) }), "C15/Substr/never-panics")
	want := zvSubstrRef(s, off, ln)
	vrt.Assert(vrt.StrEq(r, want), "C15/Substr/selects-documented-byte-range")
	if len(want) > 0 {
		vrt.Cover("C15/Substr/nonempty")
	}
}

func ZvC15_SplitAtIndex() {
	s := vrt.Str(zvS())
	i := vrt.Int()
	var r []string
	vrt.Assert(!vrt.Try(func() { r = SplitAtIndex(s, i) }), "C15/SplitAtIndex/no-panic")
	vrt.Assert(len(r) == 2, "C15/SplitAtIndex/always-two-parts")
	if len(r) == 2 {
		vrt.Assert(vrt.StrEq(r[0]+r[1], s), "C15/SplitAtIndex/parts-concatenate-to-input")
	}
}

func zvToken() string { return vrt.Str(1 + vrt.Choice(2)) }

// zvPadArgs: size ranges over all ints; sizes that require padding are concretised within len+6.
func zvPadArgs() (string, int, string) {
	s := vrt.Str(zvLen(vrt.Pick(3, 4)))
	tok := zvToken()
	size := vrt.Int()
	vrt.Assume(size <= len(s)+vrt.Pick(5, 6))
	if size > len(s) {
		size = vrt.Concrete(size, len(s)+1, len(s)+6)
	}
	return s, size, tok
}

func zvIsRepeat(pad, tok string) bool {
	ok := true
	for i := 0; i < len(pad); i++ {
		ok = vrt.And(ok, pad[i] == tok[i%len(tok)])
	}
	return ok
}

func ZvC15_PadLeftRight() {
	s, size, tok := zvPadArgs()
	var l, r string
	vrt.Assert(!vrt.Try(func() { l = PadLeft(s, size, tok); r = PadRight(s, size, tok) }), "C15/PadLeft/no-panic")
	if size <= len(s) {
		vrt.Assert(vrt.And(vrt.StrEq(l, s), vrt.StrEq(r, s)), "C15/PadLeft/unchanged-when-long-enough")
		return
	}
	vrt.Assert(vrt.And(len(l) == size, len(r) == size), "C15/PadLeft/exactly-requested-length")
	if len(l) == size && len(r) == size {
		k := size - len(s)
		vrt.Assert(vrt.And(vrt.StrEq(l[k:], s), zvIsRepeat(l[:k], tok)), "C15/PadLeft/input-at-end-after-repeated-token")
		vrt.Assert(vrt.And(vrt.StrEq(r[:len(s)], s), zvIsRepeat(r[len(s):], tok)), "C15/PadRight/input-at-start-before-repeated-token")
	}
	vrt.Cover("C15/Pad/padded")
}

func ZvC15_Pad() {
	s, size, tok := zvPadArgs()
	var p string
	vrt.Assert(!vrt.Try(func() { p = Pad(s, size, tok) }), "C15/Pad/no-panic")
	if size <= len(s) {
		vrt.Assert(vrt.StrEq(p, s), "C15/Pad/unchanged-when-long-enough")
		return
	}
	vrt.Assert(len(p) == size, "C15/Pad/exactly-requested-length")
	if len(p) == size {
		k := size - len(s)
		left := k / 2
		vrt.Assert(vrt.And(vrt.StrEq(p[left:left+len(s)], s), zvIsRepeat(p[:left], tok), zvIsRepeat(p[left+len(s):], tok)),
			"C15/Pad/input-centred-between-repeated-token")
	}
}

func ZvC15_WrapUnwrap() {
	s := vrt.Str(zvLen(vrt.Pick(3, 4)))
	tok := vrt.Str(vrt.Choice(3))
	var w, u string
	vrt.Assert(!vrt.Try(func() { w = Wrap(s, tok) }), "C15/Wrap/no-panic")
	vrt.Assert(vrt.StrEq(w, tok+s+tok), "C15/Wrap/token-on-both-sides")
	vrt.Assert(!vrt.Try(func() { u = Unwrap(w, tok) }), "C15/Unwrap/no-panic-on-wrapped")
	vrt.Assert(vrt.StrEq(u, s), "C15/Unwrap/undoes-Wrap")
}

func ZvC15_UnwrapNotWrapped() {
	s := vrt.Str(zvS())
	tok := vrt.Str(1 + vrt.Choice(2))
	var u string
	vrt.Assert(!vrt.Try(func() { u = Unwrap(s, tok) }), "C15/Unwrap/never-panics")
	t := len(tok)
	wrapped := false
	if len(s) >= 2*t {
		wrapped = vrt.And(vrt.StrEq(s[:t], tok), vrt.StrEq(s[len(s)-t:], tok))
	}
	// a string that does not both start and end with the (non-overlapping) token is left unchanged
	vrt.Assert(vrt.Implies(!wrapped, vrt.StrEq(u, s)), "C15/Unwrap/leaves-unwrapped-strings-unchanged")
	if len(s) >= 2*t {
		vrt.Assert(vrt.Implies(wrapped, vrt.StrEq(u, s[t:len(s)-t])), "C15/Unwrap/strips-exactly-the-token")
	}
}

func zvText(n int) string {
	s := vrt.Str(n)
	if vrt.Tier() == 0 {
		for i := 0; i < n; i++ {
			vrt.Assume(s[i] < 0xE0) // quick: ASCII and 2-byte forms (well-formed or not)
		}
	}
	return s
}

func ZvC15_WrapAllRune() {
	s := zvText(zvLen(vrt.Pick(3, 4)))
	tok := vrt.Str(vrt.Choice(2))
	var w string
	vrt.Assert(!vrt.Try(func() { w = WrapAllRune(s, tok) }), "C15/WrapAllRune/no-panic")
	want := ""
	for _, r := range s {
		want += tok + string(r) + tok
	}
	vrt.Assert(vrt.StrEq(w, want), "C15/WrapAllRune/wraps-every-rune")
}

func ZvC15_Case() {
	s := zvText(zvLen(vrt.Pick(3, 4)))
	var lo, up, cp string
	which := vrt.Choice(3)
	vrt.Assert(!vrt.Try(func() {
		switch which {
		case 0:
			lo = ToLower(s)
		case 1:
			up = ToUpper(s)
		case 2:
			cp = Capitalize(s)
		}
	}), "C15/Case/no-panic")
	wl, wu, wc := "", "", ""
	for i, r := range s {
		wl += string(unicode.ToLower(r))
		wu += string(unicode.ToUpper(r))
		if i == 0 {
			wc += string(unicode.ToUpper(r))
		} else {
			wc += string(unicode.ToLower(r))
		}
	}
	switch which {
	case 0:
		vrt.Assert(vrt.StrEq(lo, wl), "C15/ToLower/unicode-lower-of-every-rune")
	case 1:
		vrt.Assert(vrt.StrEq(up, wu), "C15/ToUpper/unicode-upper-of-every-rune")
	case 2:
		vrt.Assert(vrt.StrEq(cp, wc), "C15/Capitalize/first-upper-rest-lower")
	}
}

func ZvC15_Null() {
	vrt.Assert(vrt.And(Null[int]() == 0, vrt.StrEq(Null[string](), ""), !Null[bool]()), "C15/Null/zero-value")
}
