package gogu

import (
	vrt "github.com/esimov/gogu/zzvrt"
)

// zvInts returns a slice of n arbitrary ints.
func zvInts(n int) []int {
	a := make([]int, n)
	for i := range a {
		a[i] = vrt.Int()
	}
	return a
}

// zvLen picks a concrete length 0..max.
func zvLen(max int) int { return vrt.Choice(max + 1) }

func zvCopy(a []int) []int { return append([]int(nil), a...) }

func zvPred(x int) bool { return vrt.PredInt(x) }
func zvFn(x int) int    { return vrt.FnInt(x) }
