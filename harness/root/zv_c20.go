package gogu

// C20 — Delay, debounce and throttle under a SYMBOLIC CLOCK with ENVIRONMENT-FIRED TIMERS:
// time.AfterFunc registers a timer with deadline now+d; at every vrt.Advance() the environment may
// fire any subset of the active timers, each at a fresh instant >= its deadline; vrt.Quiesce() fires
// all that remain (the runtime's documented timer contract, nothing more).

import (
	"time"

	vrt "github.com/esimov/gogu/zzvrt"
)

func zvWait() int64 {
	d := vrt.Int64()
	vrt.Assume(vrt.And(d >= 0, d < 1<<58))
	return d
}

func ZvC20_Delay() {
	d := zvWait()
	runs := 0
	var tRun int64
	t0 := vrt.NowNano()
	timer := Delay(time.Duration(d), func() { runs++; tRun = vrt.NowNano() })
	stop := vrt.Choice(2) == 1
	vrt.Advance()
	if runs > 0 {
		vrt.Assert(tRun >= t0+d, "C20/Delay/never-sooner-than-the-delay")
	}
	ranBeforeStop := runs
	if stop {
		timer.Stop()
	}
	vrt.Advance()
	vrt.Quiesce()
	vrt.Assert(runs <= 1, "C20/Delay/at-most-once")
	if stop {
		vrt.Assert(runs == ranBeforeStop, "C20/Delay/not-after-stop")
	} else {
		vrt.Assert(runs == 1, "C20/Delay/does-run-if-not-stopped")
		vrt.Assert(tRun >= t0+d, "C20/Delay/never-sooner-than-the-delay")
	}
}

// Debounce: every sequence of <= L steps from {call, cancel, let time pass}, then quiescence.
func ZvC20_Debounce() {
	wait := zvWait()
	add, cancel := NewDebounce(time.Duration(wait))
	L := vrt.Pick(4, 6)
	steps := 1 + vrt.Choice(L)
	var tAdd []int64 // instant read just before the i-th call
	var runs []int   // how often the i-th callback has run
	pending := -1    // index of the call whose callback is scheduled (most recent, not cancelled)
	for s := 0; s < steps; s++ {
		switch vrt.Choice(3) {
		case 0:
			i := len(tAdd)
			tAdd = append(tAdd, vrt.NowNano())
			runs = append(runs, 0)
			vrt.Assert(!vrt.Try(func() {
				add(func() {
					now := vrt.NowNano()
					runs[i]++
					vrt.Assert(pending == i, "C20/Debounce/only-the-most-recent-call-fires (none after cancel)")
					vrt.Assert(now >= tAdd[i]+wait, "C20/Debounce/never-sooner-than-wait-after-the-most-recent-call")
					vrt.Assert(runs[i] == 1, "C20/Debounce/at-most-once-per-burst")
					pending = -1
				})
			}), "C20/Debounce/call-no-panic")
			pending = i
		case 1:
			vrt.Assert(!vrt.Try(cancel), "C20/Debounce/cancel-no-panic")
			pending = -1
		case 2:
			vrt.Advance()
		}
		vrt.Assert(vrt.LocksHeld() == 0, "C20/Debounce/lock-released")
	}
	last := pending
	vrt.Quiesce()
	if last >= 0 {
		vrt.Assert(runs[last] == 1, "C20/Debounce/does-run-if-no-further-call-or-cancel-arrives")
		vrt.Cover("C20/Debounce/fired-at-quiescence")
	}
	total := 0
	for _, r := range runs {
		total += r
	}
	vrt.Assert(total <= len(runs), "C20/Debounce/at-most-once-per-call")
	vrt.Cover("C20/Debounce/end")
}

// Throttle, sequential arrangements: every sequence of <= L steps from {Call, Next (only when it
// would not block), Cancel, let time pass}. Grants are bracketed by clock reads; since the clock is
// symbolic, "b2 - a1 >= period" for consecutive grants is exactly as strong as comparing the
// internal grant instants. Known finding C20-KF1: with trailing=true a trigger arriving inside a
// period sets the permission immediately, so Next grants twice within one period (same as upstream
// boz/go-throttle); region: trailing mode, clause: rate.
func ZvC20_Throttle_Sequential() {
	period := zvWait()
	trailing := vrt.Choice(2) == 1
	t := NewThrottle(time.Duration(period), trailing)
	L := vrt.Pick(4, 6)
	steps := 1 + vrt.Choice(L)
	var lastGrantStart, lastGrantEnd int64
	grants := 0
	cancelled := false
	for s := 0; s < steps; s++ {
		switch vrt.Choice(4) {
		case 0:
			was := t.waiting
			a := vrt.NowNano()
			vrt.Assert(!vrt.Try(t.Call), "C20/Throttle/Call-no-panic")
			if cancelled {
				vrt.Assert(t.waiting == was, "C20/Throttle/trigger-after-cancel-ignored")
			} else if !was && !t.waiting {
				// dropped trigger: only allowed inside a period, and only without trailing
				vrt.Assert(!trailing, "C20/Throttle/trailing-trigger-kept-when-configured")
				vrt.Assert(vrt.And(grants > 0, a-lastGrantEnd <= period), "C20/Throttle/trigger-dropped-only-inside-a-period")
			}
		case 1:
			if !t.waiting && !t.stop {
				continue // Next would block: covered by the concurrent arrangement
			}
			a := vrt.NowNano()
			var ok bool
			vrt.Assert(!vrt.Try(func() { ok = t.Next() }), "C20/Throttle/Next-no-panic")
			b := vrt.NowNano()
			if cancelled {
				vrt.Assert(!ok, "C20/Throttle/Next-false-after-cancel")
			} else {
				vrt.Assert(ok, "C20/Throttle/Next-grants-pending-permission")
				if grants > 0 {
					vrt.AssertUnless(trailing, b-lastGrantStart >= period, "C20/Throttle/at-most-one-permission-per-period")
				}
				grants++
				lastGrantStart = a
				lastGrantEnd = b
			}
		case 2:
			vrt.Assert(!vrt.Try(t.Cancel), "C20/Throttle/Cancel-no-panic")
			cancelled = true
		case 3:
			vrt.Advance()
		}
		vrt.Assert(vrt.LocksHeld() == 0, "C20/Throttle/lock-released")
	}
	vrt.Quiesce()
	vrt.Cover("C20/Throttle/end")
}

// Throttle, concurrent arrangement: a consumer blocked in Next while a producer issues
// Call, (time passes), Call, (time passes), Cancel — every interleaving at the mutex/condition
// granularity, symbolic clock. The grant instants are bracketed from both threads: the first grant
// cannot precede the producer's clock read before its first Call (c0), the second is not later than
// the consumer's read after its second Next (b1); so "grants at least one period apart" implies
// b1 - c0 >= period. Cancel must release a pending Next (otherwise: deadlock, reported by the
// scheduler) and every later Next returns false.
func ZvC20_Throttle_Concurrent() {
	period := zvWait()
	trailing := vrt.Choice(2) == 1
	t := NewThrottle(time.Duration(period), trailing)
	nNext := 1 + vrt.Choice(2)
	var ok [3]bool
	var b [3]int64
	var fired [3]int // timers fired by the environment when each Next had returned
	var c0 int64
	got := 0
	vrt.Par(func() {
		for i := 0; i < nNext; i++ {
			ok[i] = t.Next()
			fired[i] = vrt.FiredCount()
			b[i] = vrt.NowNano()
			if !ok[i] {
				return
			}
			got++
		}
	}, func() {
		c0 = vrt.NowNano()
		t.Call()
		vrt.Advance()
		t.Call()
		vrt.Advance()
		t.Cancel()
	})
	vrt.Assert(got <= 2, "C20/Throttle/no-more-grants-than-triggers")
	if got == 2 {
		// Region of the known finding: trailing mode AND the second permission was taken before the
		// trailing-edge timer had fired (the consumer found the permission already set by Call).
		// Once that timer has fired — it is what releases a consumer waiting inside Next — the
		// instant read afterwards is past the trailing edge, so the rate clause is enforced in
		// trailing mode too.
		known := trailing && fired[1] == 0
		vrt.AssertUnless(known, b[1]-c0 >= period, "C20/Throttle/at-most-one-permission-per-period")
		vrt.Cover("C20/Throttle/concurrent-two-grants")
	}
	vrt.Assert(!t.Next(), "C20/Throttle/Next-false-after-cancel")
	vrt.Assert(vrt.LocksHeld() == 0, "C20/Throttle/lock-released")
	vrt.Quiesce()
}

// ZvC20_Debounce_Rearm: a debounced function that schedules the next one from inside itself (and
// a cancel afterwards). The timer the inner call installs must stay under the debouncer's
// control: after cancel nothing runs, without cancel the inner function runs exactly once.
func ZvC20_Debounce_Rearm() {
	wait := zvWait()
	add, cancel := NewDebounce(time.Duration(wait))
	outer, inner := 0, 0
	var tInner int64
	add(func() {
		outer++
		tInner = vrt.NowNano()
		add(func() {
			inner++
			vrt.Assert(vrt.NowNano() >= tInner+wait, "C20/Debounce/rearmed-call-never-sooner-than-wait")
		})
	})
	vrt.Advance() // the outer function may run now (and re-arm)
	doCancel := vrt.Choice(2) == 1
	ranBefore := inner
	if doCancel {
		cancel()
	}
	vrt.Advance()
	vrt.Quiesce()
	vrt.Assert(vrt.And(outer <= 1, inner <= 1), "C20/Debounce/at-most-once-per-call")
	if doCancel {
		vrt.Assert(inner == ranBefore, "C20/Debounce/nothing-runs-after-cancel (also for a call made from inside a debounced function)")
	} else {
		vrt.Assert(vrt.And(outer == 1, inner == 1), "C20/Debounce/does-run-if-no-further-call-or-cancel-arrives")
	}
	vrt.Assert(vrt.LocksHeld() == 0, "C20/Debounce/lock-released")
}

// ZvC20_Throttle_TwoConsumers: two consumers waiting in Next, one trigger: at most one of them is
// granted; Cancel releases the other with false. Also: a single consumer calling Next three times
// against two triggers gets at most two grants (a left-over wake-up grants nothing).
func ZvC20_Throttle_TwoConsumers() {
	period := zvWait()
	trailing := vrt.Choice(2) == 1
	t := NewThrottle(time.Duration(period), trailing)
	grants := 0
	if vrt.Choice(2) == 0 {
		vrt.Par(func() {
			if t.Next() {
				grants++
			}
		}, func() {
			if t.Next() {
				grants++
			}
		}, func() {
			t.Call()
			vrt.Advance()
			t.Cancel()
		})
		vrt.Assert(grants <= 1, "C20/Throttle/no-more-grants-than-triggers")
	} else {
		vrt.Par(func() {
			for i := 0; i < 3; i++ {
				if !t.Next() {
					return
				}
				grants++
			}
		}, func() {
			t.Call()
			vrt.Advance()
			t.Call()
			vrt.Advance()
			t.Cancel()
		})
		vrt.Assert(grants <= 2, "C20/Throttle/no-more-grants-than-triggers")
	}
	vrt.Assert(!t.Next(), "C20/Throttle/Next-false-after-cancel")
	vrt.Assert(vrt.LocksHeld() == 0, "C20/Throttle/lock-released")
	vrt.Quiesce()
}
