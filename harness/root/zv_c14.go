package gogu

// C14 — map helpers. Maps hold n pairwise distinct symbolic keys and arbitrary symbolic values;
// EVERY iteration order of every `range` over a map inside the helper is explored (the language
// leaves it unspecified). Results whose order or choice is unspecified are checked as sets or by
// their defining property.

import (
	vrt "github.com/esimov/gogu/zzvrt"
)

func zvMap(n int) (map[int]int, []int, []int) {
	m := make(map[int]int)
	ks, vs := make([]int, n), make([]int, n)
	for i := 0; i < n; i++ {
		ks[i], vs[i] = vrt.Int(), vrt.Int()
		for j := 0; j < i; j++ {
			vrt.Assume(ks[j] != ks[i])
		}
		m[ks[i]] = vs[i]
	}
	return m, ks, vs
}

func zvE() int { return zvLen(vrt.Pick(3, 4)) }

// zvSameMap: r holds exactly the entries (ks[i], vs[i]) with keep[i].
func zvSameMap(r map[int]int, ks, vs []int, keep []bool, id string) {
	vrt.MapOrderMode(2)
	cnt := 0
	for i := range ks {
		v, ok := r[ks[i]]
		vrt.Assert(ok == keep[i], id+"/entry-present-iff-qualifies")
		if ok {
			vrt.Assert(v == vs[i], id+"/value-preserved")
		}
		cnt += vrt.B2I(keep[i])
	}
	vrt.Assert(len(r) == cnt, id+"/no-other-entries")
	vrt.MapOrderMode(0)
}

func zvAll(n int, b bool) []bool {
	out := make([]bool, n)
	for i := range out {
		out[i] = b
	}
	return out
}

func ZvC14_Keys() {
	m, ks, vs := zvMap(zvE())
	var rk []int
	vrt.Assert(!vrt.Try(func() { rk = Keys(m) }), "C14/Keys/no-panic")
	q := vrt.Int()
	vrt.Assert(vrt.And(len(rk) == len(ks), vrt.CountInt(rk, q) == vrt.CountInt(ks, q)), "C14/Keys/every-key-once")
	zvSameMap(m, ks, vs, zvAll(len(ks), true), "C14/Keys/argument-unchanged")
}

func ZvC14_Values() {
	m, _, vs := zvMap(zvE())
	var rv []int
	vrt.Assert(!vrt.Try(func() { rv = Values(m) }), "C14/Values/no-panic")
	q := vrt.Int()
	vrt.Assert(vrt.And(len(rv) == len(vs), vrt.CountInt(rv, q) == vrt.CountInt(vs, q)), "C14/Values/every-value-once")
}

func ZvC14_MapCollection() {
	m, ks, vs := zvMap(zvE())
	var rc []int
	vrt.Assert(!vrt.Try(func() { rc = MapCollection(m, zvFn) }), "C14/MapCollection/no-panic")
	q := vrt.Int()
	img := make([]int, len(vs))
	for i := range vs {
		img[i] = zvFn(vs[i])
	}
	vrt.Assert(vrt.And(len(rc) == len(vs), vrt.CountInt(rc, q) == vrt.CountInt(img, q)), "C14/MapCollection/images-of-every-value")
	zvSameMap(m, ks, vs, zvAll(len(ks), true), "C14/MapCollection/argument-unchanged")
}

func ZvC14_MapValues() {
	m, ks, vs := zvMap(zvE())
	var mv map[int]int
	vrt.Assert(!vrt.Try(func() { mv = MapValues(m, zvFn) }), "C14/MapValues/no-panic")
	img := make([]int, len(vs))
	for i := range vs {
		img[i] = zvFn(vs[i])
	}
	zvSameMap(mv, ks, img, zvAll(len(ks), true), "C14/MapValues")
}

func ZvC14_MapKeys() {
	m, ks, vs := zvMap(zvE())
	var mk map[int]int
	vrt.Assert(!vrt.Try(func() { mk = MapKeys(m, func(k, v int) int { return vrt.Fn2Int(k, v) }) }), "C14/MapKeys/no-panic")
	// MapKeys: every image key is present; every result entry stems from an original entry
	vrt.MapOrderMode(2)
	for i := range ks {
		_, ok := mk[vrt.Fn2Int(ks[i], vs[i])]
		vrt.Assert(ok, "C14/MapKeys/every-image-key-present")
	}
	for k2, v2 := range mk {
		from := false
		for i := range ks {
			from = vrt.Or(from, vrt.And(vrt.Fn2Int(ks[i], vs[i]) == k2, vs[i] == v2))
		}
		vrt.Assert(from, "C14/MapKeys/association-preserved")
	}
}

func ZvC14_Quantifiers() {
	m, _, vs := zvMap(zvE())
	x := vrt.Int()
	all, some, has := true, false, false
	for _, v := range vs {
		all = vrt.And(all, zvPred(v))
		some = vrt.Or(some, zvPred(v))
		has = vrt.Or(has, v == x)
	}
	switch vrt.Choice(3) {
	case 0:
		vrt.Assert(MapEvery(m, zvPred) == all, "C14/MapEvery")
	case 1:
		vrt.Assert(MapSome(m, zvPred) == some, "C14/MapSome")
	case 2:
		vrt.Assert(MapContains(m, x) == has, "C14/MapContains")
	}
}

func ZvC14_MapUnique() {
	m, ks, vs := zvMap(zvE())
	var r map[int]int
	vrt.Assert(!vrt.Try(func() { r = MapUnique(m) }), "C14/MapUnique/no-panic")
	vrt.MapOrderMode(2)
	var rv []int
	for k, v := range r {
		from := false
		for i := range ks {
			from = vrt.Or(from, vrt.And(ks[i] == k, vs[i] == v))
		}
		vrt.Assert(from, "C14/MapUnique/entries-come-from-the-map")
		rv = append(rv, v)
	}
	q := vrt.Int()
	vrt.Assert(vrt.CountInt(rv, q) == vrt.B2I(vrt.CountInt(vs, q) >= 1), "C14/MapUnique/one-entry-per-distinct-value")
}

func ZvC14_Find() {
	m, ks, vs := zvMap(zvE())
	var r map[int]int
	vrt.Assert(!vrt.Try(func() { r = Find(m, zvPred) }), "C14/Find/no-panic")
	vrt.MapOrderMode(2)
	keep := make([]bool, len(ks))
	for i := range ks {
		// qualifies and no qualifying entry has a smaller key
		k := zvPred(vs[i])
		for j := range ks {
			k = vrt.And(k, vrt.Not(vrt.And(zvPred(vs[j]), ks[j] < ks[i])))
		}
		keep[i] = k
	}
	zvSameMap(r, ks, vs, keep, "C14/Find/qualifying-entry-with-smallest-key")
}

func ZvC14_FindKey() {
	m, ks, vs := zvMap(zvE())
	var k int
	var byk map[int]int
	which := vrt.Choice(2)
	vrt.Assert(!vrt.Try(func() {
		if which == 0 {
			k = FindKey(m, zvPred)
		} else {
			byk = FindByKey(m, zvPred)
		}
	}), "C14/FindKey/no-panic")
	vrt.MapOrderMode(2)
	some, someK, okk := false, false, false
	for i := range ks {
		some = vrt.Or(some, zvPred(vs[i]))
		someK = vrt.Or(someK, zvPred(ks[i]))
		okk = vrt.Or(okk, vrt.And(ks[i] == k, zvPred(vs[i])))
	}
	if which == 0 {
		vrt.Assert(vrt.Ite(some, vrt.B2I(okk), vrt.B2I(k == 0)) == 1, "C14/FindKey/some-qualifying-key-or-zero")
		return
	}
	vrt.Assert(len(byk) == vrt.B2I(someK), "C14/FindByKey/one-entry-iff-some-key-qualifies")
	for k2, v2 := range byk {
		from := false
		for i := range ks {
			from = vrt.Or(from, vrt.And(ks[i] == k2, vs[i] == v2, zvPred(ks[i])))
		}
		vrt.Assert(from, "C14/FindByKey/entry-qualifies")
	}
}

func ZvC14_Invert() {
	m, ks, vs := zvMap(zvE())
	var r map[int]int
	vrt.Assert(!vrt.Try(func() { r = Invert(m) }), "C14/Invert/no-panic")
	vrt.MapOrderMode(2)
	for i := range vs {
		k, ok := r[vs[i]]
		held := false
		for j := range ks {
			held = vrt.Or(held, vrt.And(ks[j] == k, vs[j] == vs[i]))
		}
		vrt.Assert(vrt.And(ok, held), "C14/Invert/value-maps-back-to-a-key-that-held-it")
	}
	var rk []int
	for v := range r {
		rk = append(rk, v)
	}
	q := vrt.Int()
	vrt.Assert(vrt.CountInt(rk, q) == vrt.B2I(vrt.CountInt(vs, q) >= 1), "C14/Invert/keys-are-exactly-the-values")
}

func ZvC14_PickOmit() {
	m, ks, vs := zvMap(zvE())
	sel := zvInts(1 + vrt.Choice(vrt.Pick(2, 3)))
	keep := make([]bool, len(ks))
	drop := make([]bool, len(ks))
	for i := range ks {
		keep[i] = vrt.CountInt(sel, ks[i]) >= 1
		drop[i] = !keep[i]
	}
	var p map[int]int
	var err error
	if vrt.Choice(2) == 0 {
		vrt.Assert(!vrt.Try(func() { p, err = Pick(m, sel...) }), "C14/Pick/no-panic")
		vrt.Assert(err == nil, "C14/Pick/no-error-with-keys")
		zvSameMap(p, ks, vs, keep, "C14/Pick")
		zvSameMap(m, ks, vs, zvAll(len(ks), true), "C14/Pick/argument-unchanged")
		return
	}
	var o map[int]int
	vrt.Assert(!vrt.Try(func() { o = Omit(m, sel...) }), "C14/Omit/no-panic")
	zvSameMap(o, ks, vs, drop, "C14/Omit") // Pick ⊎ Omit = original
	_, e0 := Pick(m)
	vrt.Assert(e0 != nil, "C14/Pick/no-keys-is-an-error")
}

func ZvC14_PickByOmitBy() {
	m, ks, vs := zvMap(zvE())
	f := func(k, v int) bool { return vrt.Pred2Int(k, v) }
	keep := make([]bool, len(ks))
	drop := make([]bool, len(ks))
	kv := make([]bool, len(ks))
	for i := range ks {
		keep[i] = f(ks[i], vs[i])
		drop[i] = !keep[i]
		kv[i] = zvPred(vs[i])
	}
	var p, fm, o map[int]int
	switch vrt.Choice(3) {
	case 0:
		vrt.Assert(!vrt.Try(func() { p = PickBy(m, f) }), "C14/PickBy/no-panic")
		zvSameMap(p, ks, vs, keep, "C14/PickBy")
	case 1:
		vrt.Assert(!vrt.Try(func() { fm = FilterMap(m, zvPred) }), "C14/FilterMap/no-panic")
		zvSameMap(fm, ks, vs, kv, "C14/FilterMap")
	case 2:
		vrt.Assert(!vrt.Try(func() { o = OmitBy(m, f) }), "C14/OmitBy/no-panic")
		zvSameMap(o, ks, vs, drop, "C14/OmitBy")
	}
}

// collections: each map carries a distinct tag under key 0 so that results can be identified
func zvTagged(n, i int) (map[int]int, []int) {
	m := map[int]int{}
	var vs []int
	for j := 0; j < n; j++ {
		v := vrt.Int()
		m[100*i+j+1] = v
		vs = append(vs, v)
	}
	return m, vs
}

func ZvC14_Pluck() {
	n := zvLen(vrt.Pick(2, 3))
	ms := make([]map[int]int, n)
	var want []int
	for i := range ms {
		ms[i] = map[int]int{1: vrt.Int()}
		if vrt.Choice(2) == 1 {
			v := vrt.Int()
			ms[i][7] = v
			want = append(want, v)
		}
	}
	var r []int
	vrt.Assert(!vrt.Try(func() { r = Pluck(ms, 7) }), "C14/Pluck/no-panic")
	vrt.Assert(vrt.SeqEqInt(r, want), "C14/Pluck/values-under-key-in-order")
}

func ZvC14_FilterCollection() {
	n := zvLen(vrt.Pick(2, 3))
	ms := make([]map[int]int, n)
	var want []int // indices of qualifying maps
	for i := range ms {
		m, vs := zvTagged(vrt.Choice(3), i)
		ms[i] = m
		any := false
		for _, v := range vs {
			if zvPred(v) {
				any = true
			}
		}
		if any {
			want = append(want, i)
		}
	}
	var r []map[int]int
	vrt.Assert(!vrt.Try(func() { r = FilterMapCollection(ms, zvPred) }), "C14/FilterMapCollection/no-panic")
	vrt.Assert(len(r) == len(want), "C14/FilterMapCollection/keeps-a-map-exactly-when-a-value-qualifies (once)")
	for j := 0; j < len(r) && j < len(want); j++ {
		// identity of the map: compare by a write-through probe
		same := len(r[j]) == len(ms[want[j]])
		ms[want[j]][-1] = j + 1
		same = same && r[j][-1] == j+1
		delete(ms[want[j]], -1)
		vrt.Assert(same, "C14/FilterMapCollection/order-preserved")
	}
}

func ZvC14_Filter2D() {
	n := zvLen(2)
	ms := make([]map[int]map[int]int, n)
	var want []int
	for i := range ms {
		ms[i] = map[int]map[int]int{}
		any := false
		for j := 0; j < vrt.Choice(3); j++ {
			tag := vrt.Int()
			ms[i][j+1] = map[int]int{0: tag}
			if zvPred(tag) {
				any = true
			}
		}
		if any {
			want = append(want, i)
		}
	}
	var r []map[int]map[int]int
	vrt.Assert(!vrt.Try(func() {
		r = Filter2DMapCollection(ms, func(m map[int]int) bool { return zvPred(m[0]) })
	}), "C14/Filter2DMapCollection/no-panic")
	vrt.Assert(len(r) == len(want), "C14/Filter2DMapCollection/keeps-a-map-exactly-when-a-value-qualifies (once)")
}

func ZvC14_PartitionMap() {
	n := zvLen(vrt.Pick(2, 3))
	ms := make([]map[int]int, n)
	var w0, w1 []int
	for i := range ms {
		ms[i] = map[int]int{}
		if vrt.Choice(3) == 0 {
			continue // empty map: routed nowhere
		}
		tag := vrt.Int()
		ms[i][0] = tag
		if vrt.Choice(2) == 1 {
			ms[i][5] = vrt.Int()
		}
		if zvPred(tag) {
			w0 = append(w0, tag)
		} else {
			w1 = append(w1, tag)
		}
	}
	var r [2][]map[int]int
	vrt.Assert(!vrt.Try(func() {
		r = PartitionMap(ms, func(m map[int]int) bool { return zvPred(m[0]) })
	}), "C14/PartitionMap/no-panic")
	var g0, g1 []int
	for _, m := range r[0] {
		g0 = append(g0, m[0])
	}
	for _, m := range r[1] {
		g1 = append(g1, m[0])
	}
	vrt.Assert(vrt.And(vrt.SeqEqInt(g0, w0), vrt.SeqEqInt(g1, w1)), "C14/PartitionMap/routes-each-non-empty-map-by-predicate-in-order")
}

func ZvC14_SliceToMap() {
	n := zvLen(vrt.Pick(3, 4))
	k, v := zvInts(n), zvInts(n)
	var r map[int]int
	vrt.Assert(!vrt.Try(func() { r = SliceToMap(k, v) }), "C14/SliceToMap/no-panic-on-equal-lengths")
	vrt.MapOrderMode(2)
	for i := 0; i < n; i++ {
		// last position with this key wins
		want := v[i]
		for j := i + 1; j < n; j++ {
			want = vrt.Ite(k[j] == k[i], v[j], want)
		}
		got, ok := r[k[i]]
		vrt.Assert(vrt.And(ok, got == want), "C14/SliceToMap/pairs-positions-last-wins")
	}
	for kk := range r {
		vrt.Assert(vrt.CountInt(k, kk) >= 1, "C14/SliceToMap/no-other-keys")
	}
	vrt.Assert(vrt.Try(func() { SliceToMap(k, append(v, 0)) }), "C14/SliceToMap/rejects-unequal-lengths")
}
