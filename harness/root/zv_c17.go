package gogu

// C17 — Memoize: single flight per key, cached value served without invoking, errors returned and
// not cached, keys independent. The real golang.org/x/sync/singleflight.Group.Do/doCall and the
// real cache are executed symbolically; the clock is symbolic.

import (
	"errors"
	"time"

	"github.com/esimov/gogu/cache"
	vrt "github.com/esimov/gogu/zzvrt"
)

var zvC17Keys = [...]string{"a", "b"}

// zvItem makes a cache item holding x the way a user has to: through a cache.
func zvItem(x int) *cache.Item[int] {
	src := cache.New[string, int](cache.NoExpiration, 0)
	src.Update("v", x, cache.NoExpiration)
	it, _ := src.Get("v")
	return it
}

var zvErrC17 = errors.New("zv: computation failed")

// (a) sequential call patterns under the symbolic clock: a model of what MUST be served from the
// cache (definitely live) and what MUST be recomputed (definitely expired); in between is left open.
func ZvC17_Sequential() {
	E := vrt.Int64()
	vrt.Assume(vrt.And(E > 0, E < 1<<58))
	m := NewMemoizer[string, int](time.Duration(E), 0)
	L := vrt.Pick(3, 4)
	n := 1 + vrt.Choice(L)
	var has [2]bool     // model: a successful value was stored for the key ...
	var val [2]int      // ... this one ...
	var lo, hi [2]int64 // ... with a deadline in [lo, hi]
	for i := 0; i < n; i++ {
		k := vrt.Choice(2)
		fail := vrt.Bool()
		withItem := vrt.Bool() // a failing computation may still hand back an item next to its error
		x := vrt.Int()
		calls := 0
		t0 := vrt.NowNano()
		var it *cache.Item[int]
		var err error
		vrt.Assert(!vrt.Try(func() {
			it, err = m.Memoize(zvC17Keys[k], func() (*cache.Item[int], error) {
				calls++
				if fail {
					if withItem {
						return zvItem(x), zvErrC17
					}
					return nil, zvErrC17
				}
				return zvItem(x), nil
			})
		}), "C17/Memoize/no-panic")
		t1 := vrt.NowNano()
		vrt.Assert(calls <= 1, "C17/sequential/at-most-one-invocation-per-call")
		if has[k] && t1 <= lo[k] {
			// definitely live during the whole call
			vrt.Assert(calls == 0, "C17/cached-live-value-served-without-invoking")
			vrt.Assert(vrt.And(err == nil, it.Val() == val[k]), "C17/cached-live-value-is-returned")
			vrt.Cover("C17/sequential/served-from-cache")
			continue
		}
		if !has[k] || t0 > hi[k] {
			// nothing cached, or definitely expired: the function must run
			vrt.Assert(calls == 1, "C17/absent-or-expired-key-invokes-the-function")
			if has[k] {
				vrt.Cover("C17/sequential/recomputed-after-expiry")
			}
		}
		if calls == 1 {
			if fail {
				vrt.Assert(err != nil, "C17/error-is-returned-to-the-caller")
				// an error is not cached: the model keeps whatever was there (possibly expired)
			} else {
				vrt.Assert(vrt.And(err == nil, it.Val() == x), "C17/computed-value-is-returned")
				has[k], val[k], lo[k], hi[k] = true, x, t0+E, t1+E
			}
		} else {
			// served from the cache in the unspecified window: must be the modelled value
			vrt.Assert(vrt.And(has[k], err == nil, it.Val() == val[k]), "C17/value-served-is-the-cached-one")
		}
		vrt.Assert(vrt.LocksHeld() == 0, "C17/lock-released")
	}
	// errors are not cached and keys are independent: the cache holds exactly the modelled keys
	for k := range zvC17Keys {
		_, found := m.Cache.List()[zvC17Keys[k]]
		vrt.Assert(found == has[k], "C17/cache-holds-exactly-the-successful-keys (errors not cached, keys independent)")
	}
}

// (b) concurrent callers, every schedule. The supplied function yields in the middle, so two
// executions can overlap if the implementation lets them.
type zvExec struct {
	key        int
	begin, end int
	val        int
	fail       bool
}

func zvC17Concurrent(threads [][]int /* key index per call */, id string) {
	m := NewMemoizer[string, int](cache.NoExpiration, 0)
	var execs []*zvExec
	var inflight [2]int
	type callRec struct {
		key        int
		begin, end int
		v          int
		failed     bool
	}
	var calls []*callRec
	var fs []func()
	for _, ks := range threads {
		ks := ks
		var recs []*callRec
		for _, k := range ks {
			c := &callRec{key: k}
			calls = append(calls, c)
			recs = append(recs, c)
		}
		fails := make([]bool, len(ks))
		xs := make([]int, len(ks))
		for i := range ks {
			fails[i], xs[i] = vrt.Bool(), vrt.Int()
		}
		fs = append(fs, func() {
			for i, k := range ks {
				c := recs[i]
				c.begin = vrt.Stamp()
				it, err := m.Memoize(zvC17Keys[k], func() (*cache.Item[int], error) {
					e := &zvExec{key: k, begin: vrt.Stamp(), val: xs[i], fail: fails[i]}
					execs = append(execs, e)
					inflight[k]++
					vrt.Assert(inflight[k] == 1, "C17/"+id+"/one-execution-per-key-at-a-time")
					vrt.Yield() // latency: other callers may arrive now
					inflight[k]--
					e.end = vrt.Stamp()
					if e.fail {
						return nil, zvErrC17
					}
					return zvItem(e.val), nil
				})
				c.end = vrt.Stamp()
				c.failed = err != nil
				if err == nil {
					c.v = it.Val()
				}
			}
		})
	}
	vrt.ShareNoRaceCheck(m)
	vrt.Par(fs...)
	for _, c := range calls {
		// the result (value or error) comes from an execution for the SAME key that began before the
		// caller returned, i.e. one that overlapped or preceded the call — the statement allows a
		// caller arriving while a finished execution is still being wound up to receive its outcome
		ok := false
		for _, e := range execs {
			if e.key != c.key || e.begin > c.end {
				continue
			}
			if e.fail {
				ok = vrt.Or(ok, c.failed)
			} else {
				ok = vrt.Or(ok, vrt.And(!c.failed, c.v == e.val))
			}
		}
		vrt.Assert(ok, "C17/"+id+"/result-comes-from-an-execution-for-the-same-key-that-overlapped-or-preceded-the-call")
	}
	// callers that joined the same execution got the same result: with a single execution for a
	// key, every caller of that key holds its outcome
	for k := range zvC17Keys {
		n := 0
		var only *zvExec
		for _, e := range execs {
			if e.key == k {
				n++
				only = e
			}
		}
		if n == 1 {
			for _, c := range calls {
				if c.key == k {
					vrt.Assert(vrt.And(c.failed == only.fail, only.fail || c.v == only.val), "C17/"+id+"/joined-callers-receive-the-same-result")
				}
			}
			_, cached := m.Cache.List()[zvC17Keys[k]]
			vrt.Assert(cached == !only.fail, "C17/"+id+"/success-cached-error-not-cached")
		}
		if n == 0 {
			_, cached := m.Cache.List()[zvC17Keys[k]]
			vrt.Assert(!cached, "C17/"+id+"/keys-do-not-contaminate-each-other")
		}
	}
	vrt.Assert(vrt.LocksHeld() == 0, "C17/"+id+"/lock-released")
}

func ZvC17_TwoCallers() {
	k2 := vrt.Choice(2)
	zvC17Concurrent([][]int{{0}, {k2}}, "two-callers")
}

func ZvC17_ThreeCallers() {
	vrt.PreemptBound(vrt.Pick(3, 5))
	zvC17Concurrent([][]int{{0}, {0}, {vrt.Choice(2)}}, "three-callers")
}

// A caller that retries after its call returned, against two other callers of the same key
// (context bound: at most 3 / 4 pre-emptive switches per execution).
func ZvC17_RetryingCaller() {
	vrt.PreemptBound(vrt.Pick(3, 5))
	zvC17Concurrent([][]int{{0, 0}, {0}, {0}}, "retrying-caller")
}

// ZvC17_CleanupVsMemoize: the cache's cleanup pass (DeleteExpired, the janitor's body) runs
// concurrently with a Memoize call that recomputes an expired value, every schedule, symbolic clock.
// If the function was invoked, its fresh value must be in the cache afterwards: a cleanup pass that
// judged the OLD entry expired must not remove the NEW one (which is what "once a successful value
// is cached and until it expires, Memoize returns it without invoking" rests on).
func ZvC17_CleanupVsMemoize() {
	E := vrt.Int64()
	vrt.Assume(vrt.And(E > 0, E < 1<<58))
	m := NewMemoizer[string, int](time.Duration(E), 0)
	v1, v2 := vrt.Int(), vrt.Int()
	m.Memoize("a", func() (*cache.Item[int], error) { return zvItem(v1), nil })
	calls := 0
	vrt.ShareNoRaceCheck(m)
	vrt.Par(func() {
		m.Cache.DeleteExpired()
	}, func() {
		m.Memoize("a", func() (*cache.Item[int], error) { calls++; return zvItem(v2), nil })
	})
	if calls == 1 {
		it, ok := m.Cache.List()["a"]
		vrt.Assert(ok, "C17/cleanup/freshly-computed-value-stays-cached")
		if ok {
			vrt.Assert(it.Val() == v2, "C17/cleanup/cached-value-is-the-fresh-one")
		}
		vrt.Cover("C17/cleanup/recomputed")
	}
	vrt.Assert(vrt.LocksHeld() == 0, "C17/cleanup/lock-released")
}
