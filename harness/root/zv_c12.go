package gogu

// C12 — reshaping helpers conserve elements and order.

import (
	vrt "github.com/esimov/gogu/zzvrt"
)

func zvN12() int { return zvLen(vrt.Pick(5, 7)) }

func zvFlat(chunks [][]int) []int {
	var out []int
	for _, c := range chunks {
		out = append(out, c...)
	}
	return out
}

func ZvC12_Chunk() {
	n := zvN12()
	s := zvInts(n)
	pre := zvCopy(s)
	size := vrt.Int()
	var res [][]int
	panicked := vrt.Try(func() { res = Chunk(s, size) })
	// documented precondition: size > 0 (panics otherwise) — and that is the only panic
	vrt.Assert(panicked == (size <= 0), "C12/Chunk/panics-iff-size-not-positive")
	if panicked {
		vrt.Cover("C12/Chunk/documented-panic")
		return
	}
	vrt.Assert(vrt.SeqEqInt(zvFlat(res), pre), "C12/Chunk/concatenates-back")
	ok := true
	for i, c := range res {
		if i < len(res)-1 {
			ok = vrt.And(ok, len(c) == size)
		} else {
			ok = vrt.And(ok, len(c) >= 1, len(c) <= size)
		}
	}
	vrt.Assert(ok, "C12/Chunk/chunk-lengths")
	vrt.Assert((len(res) == 0) == (n == 0), "C12/Chunk/empty-iff-empty")
	vrt.Cover("C12/Chunk/done")
}

func zvFilterRef(s []int, want bool) []int {
	var out []int
	for _, x := range s {
		if zvPred(x) == want {
			out = append(out, x)
		}
	}
	return out
}

func zvRev(s []int) []int {
	out := make([]int, len(s))
	for i := range s {
		out[len(s)-1-i] = s[i]
	}
	return out
}

func ZvC12_Partition() {
	s := zvInts(zvN12())
	pre := zvCopy(s)
	var p [2][]int
	vrt.Assert(!vrt.Try(func() { p = Partition(s, zvPred) }), "C12/Partition/no-panic")
	vrt.Assert(vrt.SeqEqInt(p[0], zvFilterRef(pre, true)), "C12/Partition/part0-satisfying-in-order")
	vrt.Assert(vrt.SeqEqInt(p[1], zvFilterRef(pre, false)), "C12/Partition/part1-others-in-order")
}

func ZvC12_FilterReject() {
	s := zvInts(zvN12())
	pre := zvCopy(s)
	var f, rj []int
	vrt.Assert(!vrt.Try(func() { f = Filter(s, zvPred) }), "C12/Filter/no-panic")
	vrt.Assert(vrt.SeqEqInt(f, zvFilterRef(pre, true)), "C12/Filter/satisfying-in-order")
	s2 := zvCopy(pre)
	vrt.Assert(!vrt.Try(func() { rj = Reject(s2, zvPred) }), "C12/Reject/no-panic")
	vrt.Assert(vrt.SeqEqInt(rj, zvFilterRef(pre, false)), "C12/Reject/others-in-order")
	vrt.Assert(len(f)+len(rj) == len(pre), "C12/Filter+Reject/every-element-exactly-once")
}

func ZvC12_DropWhile() {
	s := zvInts(zvN12())
	pre := zvCopy(s)
	var d, dr []int
	vrt.Assert(!vrt.Try(func() { d = DropWhile(s, zvPred); dr = DropRightWhile(s, zvPred) }), "C12/DropWhile/no-panic")
	vrt.Assert(vrt.SeqEqInt(d, zvFilterRef(pre, false)), "C12/DropWhile/kept-in-order")
	vrt.Assert(vrt.SeqEqInt(dr, zvRev(zvFilterRef(pre, false))), "C12/DropRightWhile/kept-in-reverse-order")
}

func ZvC12_GroupBy() {
	n := zvLen(vrt.Pick(4, 5))
	s := zvInts(n)
	pre := zvCopy(s)
	var g map[int][]int
	vrt.Assert(!vrt.Try(func() { g = GroupBy(s, zvFn) }), "C12/GroupBy/no-panic")
	vrt.MapOrderMode(2)
	total := 0
	for k, grp := range g {
		var want []int
		for _, x := range pre {
			if zvFn(x) == k {
				want = append(want, x)
			}
		}
		vrt.Assert(vrt.SeqEqInt(grp, want), "C12/GroupBy/group-holds-exactly-its-elements-in-order")
		total += len(grp)
	}
	vrt.Assert(total == n, "C12/GroupBy/every-element-exactly-once")
	for _, x := range pre {
		_, ok := g[zvFn(x)]
		vrt.Assert(ok, "C12/GroupBy/every-key-present")
	}
}

func ZvC12_ZipUnzip() {
	k := vrt.Choice(4) // number of rows 0..3
	rows := make([][]int, k)
	square := true
	for i := range rows {
		l := k
		if vrt.Choice(3) == 1 { // occasionally a wrong length
			l = vrt.Choice(4)
		}
		if l != k {
			square = false
		}
		rows[i] = zvInts(l)
	}
	var z, u [][]int
	pz := vrt.Try(func() { z = Zip(rows...) })
	vrt.Assert(pz == !square, "C12/Zip/panics-iff-not-square")
	pu := vrt.Try(func() { u = Unzip(rows...) })
	vrt.Assert(pu == !square, "C12/Unzip/panics-iff-not-square")
	if !square {
		vrt.Cover("C12/Zip/documented-panic")
		return
	}
	ok := vrt.And(len(z) == k, len(u) == k)
	vrt.Assert(ok, "C12/Zip/shape")
	for i := 0; i < k; i++ {
		vrt.Assert(vrt.And(len(z[i]) == k, len(u[i]) == k), "C12/Zip/row-shape")
		for j := 0; j < k; j++ {
			vrt.Assert(vrt.And(z[i][j] == rows[j][i], u[i][j] == rows[j][i]), "C12/Zip/transpose")
		}
	}
	back := Unzip(z...)
	back2 := Zip(u...)
	for i := 0; i < k; i++ {
		vrt.Assert(vrt.And(vrt.SeqEqInt(back[i], rows[i]), vrt.SeqEqInt(back2[i], rows[i])), "C12/Zip/Unzip-undo-each-other")
	}
	vrt.Cover("C12/Zip/square")
}

// zvNest builds an arbitrary nesting of ints up to the given depth; leaves are appended to *flat.
func zvNest(depth int, flat *[]int, bad *bool) any {
	switch vrt.Choice(4) {
	case 0:
		x := vrt.Int()
		*flat = append(*flat, x)
		return x
	case 1:
		a := zvInts(vrt.Choice(vrt.Pick(3, 4)))
		*flat = append(*flat, a...)
		return a
	case 2:
		if depth == 0 {
			x := vrt.Int()
			*flat = append(*flat, x)
			return x
		}
		k := vrt.Choice(3)
		out := make([]any, k)
		for i := range out {
			out[i] = zvNest(depth-1, flat, bad)
		}
		return out
	}
	*bad = true
	return "malformed"
}

func ZvC12_Flatten() {
	var flat []int
	bad := false
	nest := zvNest(2, &flat, &bad) // depth 3 has > 5 million shapes
	var res []int
	var err error
	vrt.Assert(!vrt.Try(func() { res, err = Flatten[int](nest) }), "C12/Flatten/no-panic")
	vrt.Assert((err != nil) == bad, "C12/Flatten/error-iff-malformed")
	if !bad {
		vrt.Assert(vrt.SeqEqInt(res, flat), "C12/Flatten/leaves-left-to-right")
		vrt.Cover("C12/Flatten/well-formed")
	}
}

func ZvC12_Merge() {
	a, b, c := zvInts(zvLen(3)), zvInts(zvLen(3)), zvInts(zvLen(2))
	want := append(append(zvCopy(a), b...), c...)
	var r []int
	vrt.Assert(!vrt.Try(func() { r = Merge(a, b, c) }), "C12/Merge/no-panic")
	vrt.Assert(vrt.SeqEqInt(r, want), "C12/Merge/concatenates")
	vrt.Assert(vrt.SeqEqInt(Merge(a), a), "C12/Merge/single")
}

// Drop over the WHOLE int range of n.
func ZvC12_Drop() {
	m := zvN12()
	s := zvInts(m)
	pre := zvCopy(s)
	n := vrt.Int()
	var r []int
	vrt.Assert(!vrt.Try(func() { r = Drop(s, n) }), "C12/Drop/never-panics")
	// |n| >= len: nothing left; n > 0: front removed; n < 0: back removed; n == 0: unchanged
	k := len(r)
	if k == 0 {
		vrt.Assert(vrt.Or(n >= m, n <= -m), "C12/Drop/empty-only-if-all-dropped")
		return
	}
	vrt.Assert(vrt.Or(vrt.And(n >= 0, n == m-k), vrt.And(n < 0, -n == m-k)), "C12/Drop/removes-exactly-|n|")
	front := vrt.SeqEqInt(r, pre[m-k:])
	back := vrt.SeqEqInt(r, pre[:k])
	vrt.Assert(vrt.And(vrt.Implies(n > 0, front), vrt.Implies(n < 0, back), vrt.Implies(n == 0, back)), "C12/Drop/front-or-back")
}

func ZvC12_Reverse() {
	s := zvInts(zvN12())
	pre := zvCopy(s)
	r := Reverse(s)
	vrt.Assert(vrt.SeqEqInt(r, zvRev(pre)), "C12/Reverse/reverses")
	vrt.Assert(vrt.SeqEqInt(Reverse(r), pre), "C12/Reverse/involution")
}

// zvRuneString builds a well-formed UTF-8 string of k runes (1- and 2-byte forms).
func zvRuneString(k int) (string, []rune) {
	rs := make([]rune, k)
	for i := range rs {
		rs[i] = vrt.Int32()
		vrt.Assume(vrt.And(rs[i] >= 0, rs[i] < 0x800))
	}
	return string(rs), rs
}

func ZvC12_ReverseStr() {
	k := zvLen(vrt.Pick(3, 4))
	s, rs := zvRuneString(k)
	r := ReverseStr(s)
	want := make([]rune, k)
	for i := range rs {
		want[k-1-i] = rs[i]
	}
	vrt.Assert(vrt.StrEq(r, string(want)), "C12/ReverseStr/reverses-runes")
	vrt.Assert(vrt.StrEq(ReverseStr(r), s), "C12/ReverseStr/involution")
}

func ZvC12_Shuffle() {
	n := zvLen(vrt.Pick(4, 5))
	s := zvInts(n)
	pre := zvCopy(s)
	var r []int
	vrt.Assert(!vrt.Try(func() { r = Shuffle(s) }), "C12/Shuffle/no-panic")
	q := vrt.Int()
	vrt.Assert(vrt.And(len(r) == n, vrt.CountInt(r, q) == vrt.CountInt(pre, q)), "C12/Shuffle/permutation")
	vrt.Assert(vrt.SeqEqInt(s, pre), "C12/Shuffle/argument-untouched")
}

func ZvC12_Iterators() {
	n := zvN12()
	s := zvInts(n)
	pre := zvCopy(s)
	var log []int
	m := Map(s, func(x int) int { log = append(log, x); return zvFn(x) })
	vrt.Assert(vrt.SeqEqInt(log, pre), "C12/Map/visits-each-once-in-order")
	ok := len(m) == n
	for i := 0; i < n && i < len(m); i++ {
		ok = vrt.And(ok, m[i] == zvFn(pre[i]))
	}
	vrt.Assert(ok, "C12/Map/images-in-order")
	log = nil
	ForEach(s, func(x int) { log = append(log, x) })
	vrt.Assert(vrt.SeqEqInt(log, pre), "C12/ForEach/visits-each-once-in-order")
	log = nil
	ForEachRight(s, func(x int) { log = append(log, x) })
	vrt.Assert(vrt.SeqEqInt(log, zvRev(pre)), "C12/ForEachRight/visits-each-once-in-reverse")
	log = nil
	init := vrt.Int()
	got := Reduce(s, func(x, acc int) int { log = append(log, x); return vrt.Fn2Int(x, acc) }, init)
	want := init
	for _, x := range pre {
		want = vrt.Fn2Int(x, want)
	}
	vrt.Assert(vrt.And(got == want, vrt.SeqEqInt(log, pre)), "C12/Reduce/left-fold-in-order")
	vrt.Assert(vrt.SeqEqInt(ToSlice(s...), pre), "C12/ToSlice")
}
