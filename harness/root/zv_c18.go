package gogu

// C18 — Before, After, Once and Retry invoke the callback exactly as often as promised.

import (
	"time"

	"github.com/esimov/gogu/cache"
	vrt "github.com/esimov/gogu/zzvrt"
)

// After — S1 on the counter: from ANY counter value (no wrap-around) one call runs the callback
// exactly once iff the counter is below 1, and decrements the counter. By induction: suppressed for
// the first n calls, exactly once on every later call.
func ZvC18_After_Step() {
	n := vrt.Int()
	vrt.Assume(n > -(1 << 62))
	n0 := n
	calls := 0
	vrt.Assert(!vrt.Try(func() { After(&n, func() { calls++ }) }), "C18/After/no-panic")
	vrt.Assert(calls == vrt.B2I(n0 < 1), "C18/After/runs-exactly-once-iff-counter-exhausted")
	vrt.Assert(n == n0-1, "C18/After/counter-decremented")
}

func ZvC18_After_History() {
	n := -2 + vrt.Choice(7)
	cnt := n
	m := vrt.Choice(vrt.Pick(7, 9))
	calls := 0
	for k := 1; k <= m; k++ {
		before := calls
		After(&cnt, func() { calls++ })
		want := 0
		if k > n {
			want = 1
		}
		vrt.Assert(calls-before == want, "C18/After/suppressed-for-first-n-then-once-per-call")
	}
}

// Before — bounded histories: n in -2..4, up to 7/9 calls, the callback returns a fresh symbolic
// value per invocation. Cache without expiry (the wrapper's dedicated cache).
func ZvC18_Before_History() {
	n := -2 + vrt.Choice(7)
	cnt := n
	c := cache.New[string, int](cache.NoExpiration, 0)
	m := vrt.Choice(vrt.Pick(7, 9))
	calls := 0
	last := 0
	for k := 1; k <= m; k++ {
		before := calls
		var r int
		vrt.Assert(!vrt.Try(func() {
			r = Before(&cnt, c, func() int { calls++; last = vrt.Int(); return last })
		}), "C18/Before/no-panic")
		if k <= n {
			vrt.Assert(calls-before == 1, "C18/Before/runs-on-each-of-the-first-n-calls")
			vrt.Assert(r == last, "C18/Before/returns-result-of-this-run")
		} else {
			vrt.Assert(calls == before, "C18/Before/never-runs-again")
			if n >= 1 {
				vrt.Assert(r == last, "C18/Before/later-calls-return-result-of-last-run")
			} else {
				vrt.Assert(r == 0, "C18/Before/never-ran-zero-value")
			}
		}
	}
}

// Once with a cache whose entries do not expire: a single run, every call returns the first result.
func ZvC18_Once_History() {
	c := cache.New[string, int](cache.NoExpiration, 0)
	m := 1 + vrt.Choice(vrt.Pick(3, 5))
	calls := 0
	first := 0
	for k := 1; k <= m; k++ {
		var r int
		vrt.Assert(!vrt.Try(func() {
			r = Once[string, int, int](c, func() int {
				calls++
				v := vrt.Int()
				if calls == 1 {
					first = v
				}
				return v
			})
		}), "C18/Once/no-panic")
		vrt.Assert(calls == 1, "C18/Once/callback-runs-a-single-time")
		vrt.Assert(r == first, "C18/Once/every-call-returns-the-first-result")
	}
}

// Once with an expiring cache under the symbolic clock: no second run while the entry lives.
func ZvC18_Once_Expiring() {
	d := vrt.Int64()
	vrt.Assume(vrt.And(d > 0, d < 1<<58))
	c := cache.New[string, int](time.Duration(d), 0)
	calls := 0
	first := 0
	fn := func() int {
		calls++
		v := vrt.Int()
		if calls == 1 {
			first = v
		}
		return v
	}
	t0 := vrt.NowNano()
	r1 := Once[string, int, int](c, fn)
	vrt.Assert(vrt.And(calls == 1, r1 == first), "C18/Once/expiring/first-call-runs-once")
	r2 := Once[string, int, int](c, fn)
	t1 := vrt.NowNano()
	// the entry was stored no earlier than t0, so it lives at least until t0+d
	vrt.Assert(vrt.Implies(t1 < t0+d, vrt.And(calls == 1, r2 == first)), "C18/Once/expiring/no-second-run-while-entry-lives")
	// ... and when a later call did run the callback again (the entry had expired), THAT run's
	// result is the one that lives from then on: the next call inside its lifetime must not run
	before := calls
	t2 := vrt.NowNano()
	r3 := Once[string, int, int](c, fn)
	if calls == before+1 {
		again := calls
		r4 := Once[string, int, int](c, fn)
		t3 := vrt.NowNano()
		vrt.Assert(vrt.Implies(t3 < t2+d, vrt.And(calls == again, r4 == r3)), "C18/Once/expiring/re-run-after-expiry-is-cached-again")
		vrt.Cover("C18/Once/expiring/re-run")
	}
}

// Retry: n over the whole int range below the bound, a fresh nondeterministic outcome per attempt.
func ZvC18_Retry() {
	n := vrt.Int()
	vrt.Assume(n <= vrt.Pick(8, 12))
	attempts := 0
	firstOK := -1 // index (1-based) of the first successful attempt
	var lastErr error
	var got int
	var err error
	vrt.Assert(!vrt.Try(func() {
		got, err = RType[int]{Input: 7}.Retry(n, func(in int) error {
			attempts++
			vrt.Assert(in == 7, "C18/Retry/input-passed-through")
			if vrt.Bool() {
				if firstOK < 0 {
					firstOK = attempts
				}
				lastErr = nil
				return nil
			}
			lastErr = zvErr
			return zvErr
		})
	}), "C18/Retry/no-panic")
	if n <= 0 {
		vrt.Assert(attempts == 0, "C18/Retry/not-at-all-for-non-positive-n")
		vrt.Assert(got == 0, "C18/Retry/zero-attempts-reported")
		return
	}
	vrt.Assert(attempts <= n, "C18/Retry/never-more-than-n-calls")
	if firstOK > 0 {
		vrt.Assert(vrt.And(attempts == firstOK, got == firstOK-1, err == nil), "C18/Retry/stops-at-first-success-reporting-failed-attempts")
	} else {
		vrt.Assert(vrt.And(attempts == n, got == n, err == lastErr, err != nil), "C18/Retry/n-failures-reported-with-last-error")
	}
}

var zvErr = errNew()

func errNew() error { return &zvErrT{} }

type zvErrT struct{}

func (*zvErrT) Error() string { return "zv" }

func ZvC18_RetryWithDelay() {
	n := vrt.Int()
	vrt.Assume(n <= vrt.Pick(4, 6))
	d := vrt.Int64()
	vrt.Assume(vrt.And(d >= 0, d < 1<<58))
	attempts := 0
	firstOK := -1
	var stamps []int64
	var got int
	var err error
	vrt.Assert(!vrt.Try(func() {
		_, got, err = RType[int]{Input: 7}.RetryWithDelay(n, time.Duration(d), func(el time.Duration, in int) error {
			attempts++
			stamps = append(stamps, vrt.NowNano())
			if vrt.Bool() {
				if firstOK < 0 {
					firstOK = attempts
				}
				return nil
			}
			return zvErr
		})
	}), "C18/RetryWithDelay/no-panic")
	if n <= 0 {
		vrt.Assert(vrt.And(attempts == 0, got == 0), "C18/RetryWithDelay/not-at-all-for-non-positive-n")
		return
	}
	vrt.Assert(attempts <= n, "C18/RetryWithDelay/never-more-than-n-calls")
	if firstOK > 0 {
		vrt.Assert(vrt.And(attempts == firstOK, got == firstOK-1, err == nil), "C18/RetryWithDelay/stops-at-first-success")
	} else {
		vrt.Assert(vrt.And(attempts == n, got == n, err != nil), "C18/RetryWithDelay/n-failures-reported")
	}
	ok := true
	for i := 0; i+1 < len(stamps); i++ {
		ok = vrt.And(ok, stamps[i+1]-stamps[i] >= d)
	}
	vrt.Assert(ok, "C18/RetryWithDelay/waits-at-least-d-between-consecutive-attempts")
}
