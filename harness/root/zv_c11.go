package gogu

// C11 — set-algebra slice helpers against their definitions (quadratic reference code below).

import (
	vrt "github.com/esimov/gogu/zzvrt"
)

func zvHas(s []int, x int) bool {
	for _, y := range s {
		if y == x {
			return true
		}
	}
	return false
}

func zvHasT(s []int, x int) bool { // term version (no forks)
	return vrt.CountInt(s, x) >= 1
}

func zvUniqueRef(s []int) []int {
	var out []int
	for _, x := range s {
		if !zvHas(out, x) {
			out = append(out, x)
		}
	}
	return out
}

func zvN11() int { return zvLen(vrt.Pick(5, 6)) }
func zvM11() int { return zvLen(vrt.Pick(3, 4)) }

func ZvC11_Unique() {
	s := zvInts(zvN11())
	pre := zvCopy(s)
	var r []int
	vrt.Assert(!vrt.Try(func() { r = Unique(s) }), "C11/Unique/no-panic")
	vrt.Assert(vrt.SeqEqInt(r, zvUniqueRef(pre)), "C11/Unique/first-occurrences-in-order")
}

func ZvC11_UniqueBy() {
	s := zvInts(zvLen(vrt.Pick(4, 5)))
	pre := zvCopy(s)
	var r []int
	vrt.Assert(!vrt.Try(func() { r = UniqueBy(s, zvFn) }), "C11/UniqueBy/no-panic")
	var want []int
	for i, x := range pre {
		first := true
		for j := 0; j < i; j++ {
			if zvFn(pre[j]) == zvFn(x) {
				first = false
			}
		}
		if first {
			want = append(want, x)
		}
	}
	vrt.Assert(vrt.SeqEqInt(r, want), "C11/UniqueBy/first-element-of-each-image")
}

func ZvC11_Union() {
	var flat []int
	bad := false
	nest := zvNest(2, &flat, &bad) // depth 3 has > 5 million shapes
	if len(flat) > vrt.Pick(4, 5) {
		return // stated bound on the number of leaves
	}
	var r []int
	var err error
	vrt.Assert(!vrt.Try(func() { r, err = Union[int](nest) }), "C11/Union/no-panic")
	vrt.Assert((err != nil) == bad, "C11/Union/malformed-nesting-yields-error-not-silent-empty")
	if !bad {
		vrt.Assert(vrt.SeqEqInt(r, zvUniqueRef(flat)), "C11/Union/unique-of-flattening")
		vrt.Cover("C11/Union/well-formed")
	} else {
		vrt.Cover("C11/Union/malformed")
	}
}

func ZvC11_Intersection() {
	a := zvInts(zvLen(vrt.Pick(4, 5)))
	k := vrt.Choice(3) // 0..2 further arguments
	others := make([][]int, k)
	for i := range others {
		others[i] = zvInts(zvLen(vrt.Pick(2, 3)))
	}
	params := append([][]int{a}, others...)
	var r []int
	vrt.Assert(!vrt.Try(func() { r = Intersection(params...) }), "C11/Intersection/no-panic")
	var want []int
	for _, x := range a {
		if zvHas(want, x) {
			continue
		}
		in := true
		for _, o := range others {
			if !zvHas(o, x) {
				in = false
			}
		}
		if in {
			want = append(want, x)
		}
	}
	vrt.Assert(vrt.SeqEqInt(r, want), "C11/Intersection/distinct-values-of-first-present-in-all")
}

func ZvC11_IntersectionBy() {
	// one or two further arguments: an image must occur among the images of EVERY other argument
	three := vrt.Choice(2) == 1
	amax := vrt.Pick(4, 5)
	if three {
		amax = vrt.Pick(2, 3)
	}
	a := zvInts(zvLen(amax))
	b := zvInts(zvM11())
	others := [][]int{b}
	if three {
		others = append(others, zvInts(vrt.Choice(3)))
	}
	var r []int
	vrt.Assert(!vrt.Try(func() {
		if len(others) == 1 {
			r = IntersectionBy(zvFn, a, b)
		} else {
			r = IntersectionBy(zvFn, a, b, others[1])
		}
	}), "C11/IntersectionBy/no-panic")
	qual := func(x int) bool {
		for _, o := range others {
			in := false
			for _, y := range o {
				if zvFn(y) == zvFn(x) {
					in = true
				}
			}
			if !in {
				return false
			}
		}
		return true
	}
	// (1) subsequence of the first argument, (2) every kept element qualifies,
	// (3) the first qualifying element is kept (what every reading of the statement implies).
	j := 0
	for _, x := range a {
		if j < len(r) && r[j] == x {
			j++
		}
	}
	vrt.Assert(j == len(r), "C11/IntersectionBy/subsequence-of-first")
	for _, x := range r {
		vrt.Assert(qual(x), "C11/IntersectionBy/kept-image-occurs-in-other")
	}
	for _, x := range a {
		if qual(x) {
			vrt.Assert(vrt.And(len(r) > 0, r[0] == x), "C11/IntersectionBy/first-qualifying-kept")
			break
		}
	}
}

func ZvC11_Without() {
	s := zvInts(zvN11())
	vals := zvInts(zvM11())
	pre := zvCopy(s)
	var r, d []int
	vrt.Assert(!vrt.Try(func() { r = Without[int, int](s, vals...); d = Difference(s, vals) }), "C11/Without/no-panic")
	var want []int
	for _, x := range pre {
		if !zvHas(vals, x) && !zvHas(want, x) {
			want = append(want, x)
		}
	}
	vrt.Assert(vrt.SeqEqInt(r, want), "C11/Without/distinct-values-not-listed")
	vrt.Assert(vrt.SeqEqInt(d, want), "C11/Difference/distinct-values-not-in-second")
}

func ZvC11_DifferenceBy() {
	a := zvInts(zvLen(vrt.Pick(4, 5)))
	b := zvInts(zvM11())
	var r []int
	vrt.Assert(!vrt.Try(func() { r = DifferenceBy(a, b, zvFn) }), "C11/DifferenceBy/no-panic")
	qual := func(x int) bool {
		for _, y := range b {
			if zvFn(y) == zvFn(x) {
				return false
			}
		}
		return true
	}
	j := 0
	for _, x := range a {
		if j < len(r) && r[j] == x {
			j++
		}
	}
	vrt.Assert(j == len(r), "C11/DifferenceBy/subsequence-of-first")
	for _, x := range r {
		vrt.Assert(qual(x), "C11/DifferenceBy/kept-image-absent-from-other")
	}
	for _, x := range a {
		if qual(x) {
			vrt.Assert(zvHasT(r, x), "C11/DifferenceBy/every-qualifying-value-kept")
		}
	}
}

func ZvC11_Duplicate() {
	n := zvLen(vrt.Pick(4, 5))
	s := zvInts(n)
	pre := zvCopy(s)
	var r []int
	var m map[int]int
	vrt.Assert(!vrt.Try(func() { r = Duplicate(s); m = DuplicateWithIndex(s) }), "C11/Duplicate/no-panic")
	q := vrt.Int()
	vrt.Assert(vrt.CountInt(r, q) == vrt.B2I(vrt.CountInt(pre, q) >= 2), "C11/Duplicate/exactly-the-repeated-values-once-each")
	distinctDup := 0
	for i, x := range pre {
		first := true
		for j := 0; j < i; j++ {
			if pre[j] == x {
				first = false
			}
		}
		if !first {
			continue
		}
		dup := false
		for j := i + 1; j < n; j++ {
			if pre[j] == x {
				dup = true
			}
		}
		idx, ok := m[x]
		vrt.Assert(ok == dup, "C11/DuplicateWithIndex/key-iff-repeated")
		if dup {
			distinctDup++
			vrt.Assert(idx == i, "C11/DuplicateWithIndex/first-index")
		}
	}
	vrt.Assert(len(m) == distinctDup, "C11/DuplicateWithIndex/no-other-keys")
}
