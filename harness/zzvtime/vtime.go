// Package zzvtime is the virtual clock used ONLY when a clock-dependent counterexample is replayed
// natively: the repo files that import "time" are compiled from an overlay copy whose import is
// redirected here, so time.Now returns the instants recorded by the solver and timers fire exactly
// where the engine's environment fired them. It mirrors the engine's clock/timer stub
// (engine/sym/timeenv.go) one to one.
package zzvtime

import (
	"time"

	vrt "github.com/esimov/gogu/zzvrt"
)

type Duration = time.Duration

const (
	Nanosecond  = time.Nanosecond
	Microsecond = time.Microsecond
	Millisecond = time.Millisecond
	Second      = time.Second
	Minute      = time.Minute
	Hour        = time.Hour
)

type Time struct{ ns int64 }

func Now() Time                      { return Time{vrt.NowNano()} }
func (t Time) Add(d Duration) Time   { return Time{t.ns + int64(d)} }
func (t Time) Sub(u Time) Duration   { return Duration(t.ns - u.ns) }
func (t Time) UnixNano() int64       { return t.ns }
func (t Time) After(u Time) bool     { return t.ns > u.ns }
func (t Time) Before(u Time) bool    { return t.ns < u.ns }
func (t Time) IsZero() bool          { return t.ns == 0 }
func Since(t Time) Duration          { return Duration(Now().ns - t.ns) }
func Until(t Time) Duration          { return Duration(t.ns - Now().ns) }

type timer struct {
	fn       func()
	ch       chan Time
	active   bool
	periodic bool
	fired    int
}

var timers []*timer

type Timer struct {
	C <-chan Time
	t *timer
}

type Ticker struct {
	C <-chan Time
	t *timer
}

func newTimer(fn func(), withChan, periodic bool) *timer {
	Now() // the engine reads the clock when a timer is created
	t := &timer{fn: fn, active: true, periodic: periodic}
	if withChan {
		t.ch = make(chan Time, 1)
	}
	timers = append(timers, t)
	return t
}

func AfterFunc(d Duration, f func()) *Timer {
	t := newTimer(f, false, false)
	return &Timer{t: t}
}

func NewTimer(d Duration) *Timer {
	t := newTimer(nil, true, false)
	return &Timer{C: t.ch, t: t}
}

// After: the engine fires the timer when the (empty) channel is received from; the receive follows
// the creation immediately in the code under test, so the fire instant is read eagerly here.
func After(d Duration) <-chan Time {
	t := newTimer(nil, true, false)
	fire(t)
	return t.ch
}

func NewTicker(d Duration) *Ticker {
	if d <= 0 {
		panic("non-positive interval for NewTicker")
	}
	t := newTimer(nil, true, true)
	return &Ticker{C: t.ch, t: t}
}

func (t *Timer) Stop() bool {
	was := t.t.active
	t.t.active = false
	return was
}

func (t *Timer) Reset(d Duration) bool {
	was := t.t.active
	Now() // the engine reads the clock when a timer is re-armed
	t.t.active = true
	return was
}

func (t *Ticker) Stop() { t.t.active = false }

func Sleep(d Duration) { Now(); Now() }

func fire(t *timer) {
	T := Now()
	vrt.NoteFired()
	t.fired++
	if !t.periodic {
		t.active = false
	}
	if t.ch != nil {
		select {
		case t.ch <- T:
		default:
		}
		return
	}
	t.fn()
}

func init() {
	vrt.ResetHooks = append(vrt.ResetHooks, func() { timers = nil })
	vrt.AdvanceHook = func(all bool) {
		for round := 0; round < 4; round++ {
			firedAny := false
			n := len(timers)
			for i := 0; i < n; i++ {
				t := timers[i]
				if !t.active || (t.periodic && t.fired >= 2) {
					continue
				}
				if all || vrt.Choice(2) == 1 {
					fire(t)
					firedAny = true
				}
			}
			if !all || !firedAny {
				return
			}
		}
	}
}
