package stack

// C06 — S2: bounded histories through the public API for both implementations against a slice model.

import (
	vrt "github.com/esimov/gogu/zzvrt"
)

func ZvC06_S2_Stack() {
	s := New[int]()
	var ref []int
	steps := vrt.Choice(vrt.Pick(4, 6)) + 1
	for i := 0; i < steps; i++ {
		switch vrt.Choice(3) {
		case 0:
			x := vrt.Int()
			s.Push(x)
			ref = append(ref, x)
		case 1:
			r := s.Pop()
			if len(ref) == 0 {
				vrt.Assert(r == 0, "C06/S2/Stack/Pop-empty-zero")
			} else {
				vrt.Assert(r == ref[len(ref)-1], "C06/S2/Stack/Pop-lifo")
				ref = ref[:len(ref)-1]
			}
		case 2:
			x := vrt.Int()
			vrt.Assert(s.Search(x) == (vrt.CountInt(ref, x) >= 1), "C06/S2/Stack/Search")
		}
		vrt.Assert(s.Size() == len(ref), "C06/S2/Stack/Size")
		if len(ref) > 0 {
			vrt.Assert(s.Peek() == ref[len(ref)-1], "C06/S2/Stack/Peek")
		} else {
			vrt.Assert(s.Peek() == 0, "C06/S2/Stack/Peek-empty")
		}
	}
	vrt.Cover("C06/S2/Stack/end")
}

// Known finding C06-KF1 (pinned by Example_linkedList): LStack.Pop on a stack holding >= 2 elements
// returns the element BELOW the top (list.DList.Pop hands back a copy of the new last node). The
// region predicate is exactly "Pop with >= 2 elements held" and covers only the returned value;
// which element is removed, Size, Peek and Search afterwards stay enforced.
func ZvC06_S2_LStack() {
	x0 := vrt.Int()
	s := NewLinked(x0)
	ref := []int{x0}
	steps := vrt.Choice(vrt.Pick(5, 7)) + 1
	for i := 0; i < steps; i++ {
		switch vrt.Choice(3) {
		case 0:
			x := vrt.Int()
			vrt.Assert(!vrt.Try(func() { s.Push(x) }), "C06/S2/LStack/Push-no-panic")
			ref = append(ref, x)
		case 1:
			var r int
			vrt.Assert(!vrt.Try(func() { r = s.Pop() }), "C06/S2/LStack/Pop-no-panic")
			switch {
			case len(ref) == 0:
				vrt.Assert(r == 0, "C06/S2/LStack/Pop-empty-zero")
				vrt.Cover("C06/S2/LStack/pop-on-empty")
			case len(ref) == 1:
				vrt.Assert(r == ref[0], "C06/S2/LStack/Pop-last-element")
				ref = ref[:0]
				vrt.Cover("C06/S2/LStack/emptied")
			default:
				vrt.AssertUnless(true, r == ref[len(ref)-1], "C06/S2/LStack/Pop-returns-top")
				ref = ref[:len(ref)-1]
			}
		case 2:
			x := vrt.Int()
			vrt.Assert(s.Search(x) == (vrt.CountInt(ref, x) >= 1), "C06/S2/LStack/Search")
		}
		vrt.Assert(s.Size() == len(ref), "C06/S2/LStack/Size")
		if len(ref) > 0 {
			vrt.Assert(s.Peek() == ref[len(ref)-1], "C06/S2/LStack/Peek")
		} else {
			vrt.Assert(s.Peek() == 0, "C06/S2/LStack/Peek-empty-zero")
		}
		vrt.Assert(vrt.LocksHeld() == 0, "C06/S2/LStack/lock-released")
	}
	vrt.Cover("C06/S2/LStack/end")
}

// ZvC06_LongRun: one long scenario beyond the inductive size bound — 130 pushes of symbolic values,
// then pop everything, checking value, Size and Peek at every step (capacity-dependent code).
func ZvC06_LongRun() {
	const N = 130
	s := New[int]()
	vals := make([]int, N)
	for i := range vals {
		vals[i] = vrt.Int()
		s.Push(vals[i])
	}
	vrt.Assert(s.Size() == N, "C06/Stack/long-run/Size-after-growth")
	for i := N - 1; i >= 0; i-- {
		vrt.Assert(s.Peek() == vals[i], "C06/Stack/long-run/Peek-is-top")
		vrt.Assert(s.Pop() == vals[i], "C06/Stack/long-run/lifo-without-loss")
		vrt.Assert(s.Size() == i, "C06/Stack/long-run/Size-while-draining")
	}
	vrt.Assert(vrt.And(s.Pop() == 0, s.Size() == 0), "C06/Stack/long-run/empty-at-the-end")
}
