package stack

// C06 — slice-backed Stack, S1: one real operation from an ARBITRARY items slice against sequence
// semantics (top = last). Touches the unexported field items.

import (
	vrt "github.com/esimov/gogu/zzvrt"
)

func zvStackN(n int) (*Stack[int], []int) {
	if n == 0 && vrt.Choice(2) == 1 {
		return &Stack[int]{}, nil
	}
	off := vrt.Choice(2)
	spare := 2 * vrt.Choice(2)
	back := make([]int, off+n+spare)
	for i := range back {
		back[i] = vrt.Int()
	}
	items := back[off : off+n]
	return &Stack[int]{items: items}, append([]int(nil), items...)
}

func zvN() int { return vrt.Choice(vrt.Pick(4, 6) + 1) }

func ZvC06_S1_New() {
	s := New[int]()
	vrt.Assert(vrt.And(s.Size() == 0, s.Peek() == 0, s.Pop() == 0, !s.Search(0), s.Size() == 0), "C06/Stack/New-empty")
}

func ZvC06_S1_Push() {
	n := zvN()
	s, pre := zvStackN(n)
	x := vrt.Int()
	vrt.Assert(!vrt.Try(func() { s.Push(x) }), "C06/Stack/Push/no-panic")
	vrt.Assert(vrt.SeqEqInt(s.items, append(pre, x)), "C06/Stack/Push/on-top")
	vrt.Assert(vrt.And(s.Size() == n+1, s.Peek() == x), "C06/Stack/Push/Size-Peek")
	vrt.Assert(vrt.LocksHeld() == 0, "C06/Stack/Push/lock-released")
}

func ZvC06_S1_Pop() {
	n := zvN()
	s, pre := zvStackN(n)
	var r int
	vrt.Assert(!vrt.Try(func() { r = s.Pop() }), "C06/Stack/Pop/no-panic")
	vrt.Assert(vrt.LocksHeld() == 0, "C06/Stack/Pop/lock-released")
	if n == 0 {
		vrt.Assert(vrt.And(r == 0, len(s.items) == 0, s.Size() == 0), "C06/Stack/Pop/empty-zero-changes-nothing")
		vrt.Cover("C06/Stack/Pop/empty")
		return
	}
	vrt.Assert(r == pre[n-1], "C06/Stack/Pop/returns-most-recent")
	vrt.Assert(vrt.SeqEqInt(s.items, pre[:n-1]), "C06/Stack/Pop/removes-exactly-top")
	vrt.Assert(s.Size() == n-1, "C06/Stack/Pop/Size")
	vrt.Cover("C06/Stack/Pop/nonempty")
}

func ZvC06_S1_Observers() {
	n := zvN()
	s, pre := zvStackN(n)
	x := vrt.Int()
	pk := s.Peek()
	if n == 0 {
		vrt.Assert(pk == 0, "C06/Stack/Peek/empty-zero")
	} else {
		vrt.Assert(pk == pre[n-1], "C06/Stack/Peek/is-top")
	}
	vrt.Assert(s.Search(x) == (vrt.CountInt(pre, x) >= 1), "C06/Stack/Search/exactly-held")
	vrt.Assert(s.Size() == n, "C06/Stack/Size")
	vrt.Assert(vrt.SeqEqInt(s.items, pre), "C06/Stack/observers-do-not-modify")
	vrt.Assert(vrt.LocksHeld() == 0, "C06/Stack/observers/lock-released")
}
