package stack

// C01 / C02 — concurrent programs over Stack[int] and LStack[int] through the public API only
// (driver: zzvrt.ConcCheck).

import (
	vrt "github.com/esimov/gogu/zzvrt"
)

const (
	zsPush = iota
	zsPop
	zsPeek
	zsSearch
	zsSize
)

var zvSNames = [...]string{"Push", "Pop", "Peek", "Search", "Size"}
var zvSAll = []int{zsPush, zsPop, zsPeek, zsSearch, zsSize}

type zvStacker interface {
	Push(int)
	Pop() int
	Peek() int
	Search(int) bool
	Size() int
}

type zvS struct{ s zvStacker }

func (z zvS) Apply(c vrt.ConcCall) (r vrt.ConcRes) {
	vrt.Note(zvSNames[c.K])
	r.Pan = vrt.Try(func() {
		switch c.K {
		case zsPush:
			z.s.Push(c.X)
		case zsPop:
			r.V = z.s.Pop()
		case zsPeek:
			r.V = z.s.Peek()
		case zsSearch:
			r.OK = z.s.Search(c.X)
		case zsSize:
			r.V = z.s.Size()
		}
	})
	return
}

func (z zvS) Observe(_ []int) []int {
	out := []int{z.s.Size()}
	for i := 0; i < 8 && z.s.Size() > 0; i++ {
		out = append(out, z.s.Pop())
	}
	return out
}

func zvMkStack(vals []int) func() vrt.ConcInst {
	return func() vrt.ConcInst {
		s := New[int]()
		for _, v := range vals {
			s.Push(v)
		}
		return zvS{s}
	}
}

func zvMkLStack(vals []int) func() vrt.ConcInst {
	return func() vrt.ConcInst {
		if len(vals) == 0 {
			s := NewLinked(0)
			s.Pop()
			return zvS{s}
		}
		s := NewLinked(vals[0])
		for _, v := range vals[1:] {
			s.Push(v)
		}
		return zvS{s}
	}
}

func zvCVals(max int) []int {
	n := vrt.Choice(max + 1)
	vals := make([]int, n)
	for i := range vals {
		vals[i] = vrt.Int()
	}
	return vals
}

// a follow-up push is visible on top and counted
func zvSFollow(q vrt.ConcInst) bool {
	y := vrt.Int()
	n0 := q.Apply(vrt.ConcCall{K: zsSize})
	r := q.Apply(vrt.ConcCall{K: zsPush, X: y})
	pk := q.Apply(vrt.ConcCall{K: zsPeek})
	n1 := q.Apply(vrt.ConcCall{K: zsSize})
	return vrt.And(!r.Pan, !pk.Pan, pk.V == y, n1.V == n0.V+1)
}

func ZvC01_Stack() {
	vrt.ConcCheck("C01", "Stack", zvMkStack(zvCVals(2)), vrt.ConcProgram(vrt.ConcShape(), zvSAll), nil, true, false, zvSFollow)
}
func ZvC01_LStack() {
	vrt.ConcCheck("C01", "LStack", zvMkLStack(zvCVals(2)), vrt.ConcProgram(vrt.ConcShape(), zvSAll), nil, true, false, zvSFollow)
}
func ZvC02_Stack() {
	vrt.ConcCheck("C02", "Stack", zvMkStack(zvCVals(2)), vrt.ConcProgram(vrt.ConcShape(), zvSAll), nil, false, true, nil)
}
func ZvC02_LStack() {
	vrt.ConcCheck("C02", "LStack", zvMkLStack(zvCVals(2)), vrt.ConcProgram(vrt.ConcShape(), zvSAll), nil, false, true, nil)
}
